#!/bin/bash
# mutants_all.sh [jobs] — runs every mutants/<ID>-*.patch against check <ID>.
cd "$(dirname "$0")"
J="${1:-4}"
ls mutants/*.patch | xargs -P "$J" -I{} bash -c 'p={}; id=$(basename $p | cut -d- -f1); ./selftest.sh $p $id 2>&1 | grep RESULT'
