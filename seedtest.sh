#!/bin/bash
# seedtest.sh <patch.diff> <demo-file> <demo-pkg-dir-relative-to-repo> <demo-test-regex> <ID> [more IDs...]
# Confirms a seeded change (compiles, pinned suite passes, demo fails with /
# passes without) in a scratch worktree, then runs the named checks against it.
set -u
ROOT="$(cd "$(dirname "${BASH_SOURCE[0]}")" && pwd)"
PATCH="$(realpath "$1")"; DEMO="$2"; PKG="$3"; RX="$4"; shift 4
export GOFLAGS=-mod=mod GOPROXY=off GOSUMDB=off GOTOOLCHAIN=local
W="$(mktemp -d /tmp/verif-seed-XXXXXX)"
trap 'git -C /repo worktree remove --force "$W/repo" >/dev/null 2>&1; rm -rf "$W"' EXIT
git -C /repo worktree add --detach "$W/repo" HEAD >/dev/null 2>&1 || { echo "worktree failed"; exit 2; }
if [ -n "$DEMO" ] && [ -f "$DEMO" ]; then
  cp "$DEMO" "$W/repo/$PKG/zz_seed_demo_test.go"
  (cd "$W/repo" && go test -vet=off -count=1 -run "$RX" "./$PKG/" >"$W/demo_without.log" 2>&1); echo "DEMO without change: rc=$? ($(tail -1 "$W/demo_without.log"))"
fi
git -C "$W/repo" apply "$PATCH" || { echo "PATCH-DOES-NOT-APPLY"; exit 2; }
(cd "$W/repo" && go build ./... ) || { echo "DOES-NOT-COMPILE"; exit 2; }
if [ -n "$DEMO" ] && [ -f "$DEMO" ]; then
  (cd "$W/repo" && go test -vet=off -count=1 -run "$RX" "./$PKG/" >"$W/demo_with.log" 2>&1); echo "DEMO with change:    rc=$? ($(grep -m1 -E '^(--- FAIL|FAIL|ok|panic)' "$W/demo_with.log"))"
  rm -f "$W/repo/$PKG/zz_seed_demo_test.go"
fi
echo "SUITE with change: $("$ROOT/baseline_check.sh" "$W/repo" | head -3 | tr '\n' ' ')"
mkdir -p "$W/out"
for ID in "$@"; do
  VERIF_REPO="$W/repo" VERIF_OUT="$W/out" "$ROOT/check" "$ID" quick > "$W/out/stdout.$ID" 2>&1; rc=$?
  if [ $rc -eq 1 ] && grep -q '^VIOLATION' "$W/out/stdout.$ID"; then
    echo "CHECK $ID CAUGHT: $(grep -m1 '^VIOLATION' "$W/out/stdout.$ID" | sed 's/.*class=//')"
  else
    echo "CHECK $ID MISSED rc=$rc $(grep -E '^(SUMMARY|INCONCLUSIVE|BUILD|NOTE)' "$W/out/stdout.$ID" | cut -c1-160 | tr '\n' ' ')"
  fi
done
