import json,glob,sys
pid=sys.argv[1]
for f in sorted(glob.glob('/verif/replay/%s/*.json'%pid)):
    if len(sys.argv)>2 and sys.argv[2] not in f: continue
    w=json.load(open(f))['witness']
    print('=====',f)
    if isinstance(w,dict):
        print(w.get('what') or w.get('error'))
        print((w.get('program') or '')[:int(sys.argv[3]) if len(sys.argv)>3 else 1200])
        if w.get('lines'): print('LINES', w['lines'][-2:]); print('REALERR', (w.get('real_runtime_error') or '')[:300]); print('REFERR', w.get('reference_runtime_error')); print((w.get('real_store') or '')[:800])
    else: print(str(w)[:1500])
