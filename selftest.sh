#!/bin/bash
# selftest.sh <patch-file> <ID> [tier]  — applies a breaking patch to a scratch
# worktree of /repo (outside /repo and /verif), runs the check against it and
# reports whether the check fired. Scratch tree and outputs are removed.
set -u
ROOT="$(cd "$(dirname "${BASH_SOURCE[0]}")" && pwd)"
PATCH="$(realpath "$1")"; ID="$2"; TIER="${3:-quick}"
W="$(mktemp -d /tmp/verif-mut-XXXXXX)"
trap 'git -C /repo worktree remove --force "$W/repo" >/dev/null 2>&1; rm -rf "$W"' EXIT
git -C /repo worktree add --detach "$W/repo" HEAD >/dev/null 2>&1 || { echo "worktree failed"; exit 2; }
# carry over uncommitted changes of /repo's working tree (normally none)
git -C /repo diff HEAD | git -C "$W/repo" apply --allow-empty 2>/dev/null
git -C "$W/repo" apply "$PATCH" || { echo "RESULT $ID $(basename "$PATCH") PATCH-DOES-NOT-APPLY"; exit 2; }
mkdir -p "$W/out"
VERIF_REPO="$W/repo" VERIF_OUT="$W/out" "$ROOT/check" "$ID" "$TIER" > "$W/out/stdout" 2>&1
rc=$?
if [ $rc -eq 1 ] && grep -q '^VIOLATION' "$W/out/stdout"; then
  echo "RESULT $ID $(basename "$PATCH") CAUGHT: $(grep -m1 '^VIOLATION' "$W/out/stdout" | sed 's/.*class=//')"
  exit 0
else
  echo "RESULT $ID $(basename "$PATCH") MISSED rc=$rc"; grep -E '^(SUMMARY|INCONCLUSIVE|BUILD)' "$W/out/stdout"
  exit 1
fi
