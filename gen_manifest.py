#!/usr/bin/env python3
"""Generates MANIFEST.json from the table below (one row per claimed check)."""
import json, subprocess, os
ROOT = os.path.dirname(os.path.abspath(__file__))

# id: (category, technique, level text, level note, design ref)
CHECKS = {
 "C08": ("exploration", "runtime reference-model monitor (injective-key map, datum identity)",
   "All tuples of arity 1-2 over components of length<=3 from {'-','\\\\','a'} are created in one real Metric and datum identity is checked to be a bijection (covers every ordered pair of that universe); every pair colliding under a naive encoding, plus 20k/400k random adversarial pairs of arity 1-4, go through a create/set/find/expire/emit/remove/re-create sequence against a reference map.",
   "Held on the tuples/pairs executed; trusted: Go maps, pointer equality, the harness's injective encoding.", "§4 C08"),
}
NOT_APPLICABLE = {}

def hook_commits():
    try:
        out = subprocess.run(["git","-C","/repo","log","--format=%h %s"],capture_output=True,text=True).stdout
        return [l.split()[0] for l in out.splitlines() if " verif-hook:" in l or l.split(" ",1)[1].startswith("verif-hook")]
    except Exception:
        return []

props = [json.loads(l)["id"] for l in open(os.path.join(ROOT,"properties.jsonl"))]
checks = []
for pid in props:
    if pid not in CHECKS: continue
    cat, tech, text, note, ref = CHECKS[pid]
    checks.append({
      "property_id": pid,
      "quick_cmd": f"./check {pid} quick",
      "thorough_cmd": f"./check {pid} thorough",
      "evidence_file": f"/verif/evidence/{pid}.json",
      "replay_cmd_template": f"./check {pid} --replay {{path}}",
      "engine": "harness",
      "level_claimed": {"category": cat, "text": text, "design_ref": ref},
      "level_note": note,
      "technique": tech,
    })
na = [{"property_id": p, "reason": NOT_APPLICABLE.get(p, "not yet built in this round: monitor designed in DESIGN.md §4 but not implemented/validated, so not claimed")} for p in props if p not in CHECKS]
m = {
 "version": 1,
 "setup_cmd": "./check --setup",
 "hooks": {
   "guard": "verif",
   "enable": "go test -tags verif (the harness module replaces github.com/google/mtail with /repo, so every check recompiles /repo's working tree with the tag on)",
   "baseline_off_cmd": "cd /repo && GOFLAGS=-mod=mod GOPROXY=off GOSUMDB=off go test -vet=off -count=1 -timeout 25m ./...",
   "source_commits": hook_commits(),
   "add_only": True,
 },
 "engines": [{"name": "harness", "path": "/verif/harness", "serves_properties": [c["property_id"] for c in checks],
   "kind_free_text": "Go module github.com/google/mtail/verif importing mtail's internal packages from /repo; one `go test` monitor package per property, driven by ./check"}],
 "checks": checks,
 "not_applicable": na,
 "notes": "Technique family: runtime monitoring and sanitizers. Exit codes of ./check: 0 held, 1 violation (VIOLATION line), 2 inconclusive/build failure. Known findings: /verif/known_findings.json.",
}
json.dump(m, open(os.path.join(ROOT,"MANIFEST.json"),"w"), indent=1)
print("checks:", len(checks), "not_applicable:", len(na))
