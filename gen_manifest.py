#!/usr/bin/env python3
"""Generates MANIFEST.json from the table below (one row per claimed check)."""
import json, subprocess, os
ROOT = os.path.dirname(os.path.abspath(__file__))

# id: (category, technique, level text, level note, design ref)
CHECKS = {
 "C01": ("exploration", "reference-model runtime monitor (independent interpreter) + metamorphic rendering check",
   "4k (quick) / 60k (thorough) programs from the harness's typed grammar, each rendered fully and minimally parenthesised, compiled by the real compiler and executed line by line (16/24 lines) next to an independent reference interpreter of docs/Language.md; store, runtime-error bit and settime-timestamps compared after every line; plus the documented forms of Language.md and pinned witnesses of the known findings.",
   "Held on the executions produced. Trusted: Go regexp/strconv/math, the reference interpreter (written from the docs), the generator's restriction list (constructs the reference does not define are not generated or the case is abandoned and counted).", "§4 C01, App. A"),
 "C02": ("translation_validation", "differential execution: optimised vs unoptimised compile of the same source",
   "Exhaustive grid of 4704 single-operator constant expressions (6 ops x Int/Float operand kinds x 14x14 boundary literals) plus 1.5k/40k random programs with nested constant trees in every expression position, each compiled with and without the optimiser by the real compiler and run on the same lines; per-line stores and error bits compared; optimiser-only rejections must have a constant-zero divisor per the harness's own evaluator.",
   "Both sides are the real compiler+VM; trusted: the harness's 40-line constant evaluator for the zero-divisor judgement.", "§4 C02"),
 "C03": ("exploration", "outcome-predicate monitor in crash-isolating child processes + determinism check",
   "11k (quick) / 250k (thorough) inputs <=64KiB — structured hostile families (nesting to depth 30000, regex lengths around the limit, unterminated tokens, invalid UTF-8/NUL, out-of-range literals), every prefix of every example, the repository's own test-table programs, generator output, byte/token/splice mutations, token soups, random bytes — each compiled twice in child processes that log the input before compiling; exactly-one-of(object, non-empty errors), no panic/process death, same object dump twice and in a second process; compiles over 20s/120s are re-run alone with a larger budget.",
   "Time: only a reproducible overrun (600s alone for <=64KiB) is a violation; quadratic-but-finite compiles are reported in evidence, not as violations. Error-list order is not compared (not part of the statement).", "§4 C03"),
 "C04": ("exploration", "per-instruction precondition monitor at a build-tagged VM hook + runtime-error classification",
   "Every instruction executed by accepted programs (example programs over their testdata, 1k/15k well-typed generated programs, 3k/45k 'loose' type-confused mutants of generated and example programs) is checked, before it runs, against a per-opcode table of stack depth / operand representation / index range preconditions; every runtime-error message is classified as explicit checked condition vs internal fault; panics and an instruction budget are watched. Known ill-typed-but-accepted families (C04-a..f) are classified by instruction family + offending representation.",
   "Trusted: the precondition table (validated: silent on the example programs; each report is confirmed by the VM's own reaction except for Jnm/Jm/Strptime which tolerate silently). Unclassified error messages make the run inconclusive.", "§4 C04, App. B"),
 "C05": ("exploration", "differential execution: VM with history vs freshly compiled VM loaded with the same metric state",
   "500/15k generated 'stateful' programs (strptime under three layouts on repeated strings, failing conversions, stop, zero divisors, optional groups) x 20/26 lines: at every prefix a fresh compile whose metrics are loaded with the running VM's state processes the next line alongside it; stores (values, label sets, expiry, timestamps) and runtime-error bits must agree.",
   "State transferred through the public datum API; timestamps equal unless both lie in the probe's wall-clock bracket.", "§4 C05"),
 "C07": ("exploration", "oracle monitor: Go time package vs timestamp() and datum timestamps, per line",
   "2.5k/80k (program, line sequence) cases over 23 layouts (Go reference layouts, syslog/apache variants, ambiguous pairs), 5 override time zones, current-year option on/off; rendered instants incl. DST fold/gap, invalid and repeated values, >64 distinct values, settime boundary values, lines with no time statement (clock bracket).",
   "Go's time package is the oracle; datum instants compared only when representable in int64 ns; year read before/after accepted for the current-year option.", "§4 C07"),
 "C06": ("exploration", "differential monitor (together vs alone) + refusal model on a real Runtime+Store+Prometheus registry (under -race)",
   "60/2500 sets of 1-4 programs from a family sharing the names x,y (same/different kind, Int/Float, 0-2 keys, hidden, syntax errors, runtime errors on half the lines), every load order for sets <=3, random orders with interleaved unload / comment-only reload / broken reload of other programs for sets of 4, with and without -omit_metric_source; each loaded program's projection of the store and of the scrape must equal the same program run alone on the same lines; refusal must follow the one permitted rule; refused programs export nothing.",
   "The refusal model is the statement's single permitted interaction; barrier lines make processing complete before projection.", "§4 C06"),
 "C08": ("exploration", "runtime reference-model monitor (injective-key map, datum identity)",
   "All tuples of arity 1-2 over components of length<=3 from {'-','\\\\','a'} are created in one real Metric and datum identity is checked to be a bijection (covers every ordered pair of that universe); every pair colliding under a naive encoding, plus 20k/400k random adversarial pairs of arity 1-4, go through a create/set/find/expire/emit/remove/re-create sequence against a reference map.",
   "Held on the tuples/pairs executed; trusted: Go maps, pointer equality, the harness's injective encoding.", "§4 C08"),
 "C09": ("exploration", "executable sequential reference model compared after every operation",
   "All operation sequences of length 4 (quick) / 5 (thorough) over {get,update,remove,expire} x 2 tuples + wrong-arity ops for three metric shapes, plus 6k/400k random sequences (<=30 ops) over every kind x type x arity 0-2; after every op the LabelValues slice, the index, EmitLabelSets and JSON are compared with an insertion-ordered reference list.",
   "Single-threaded; creation timestamp learnt from the real side; JSON of non-finite floats left to C22.", "§4 C09"),
 "C10": ("exploration", "reference GC predicate over (before, after) snapshots of real Store.Gc()",
   "6k/300k random stores (limits, expiry marks, tied timestamps) built through the real API; one real Gc() bracketed by the harness clock; survivors must be an unchanged subsequence, limit victims an oldest-prefix (ties by inequality), expired data gone and everything else kept; second pass must be a no-op; index agrees with slice.",
   "Data ages are >=0.5h away from every expiry threshold so the verdict is independent of when Gc sampled time.Now(); 'at most N' read literally.", "§4 C10"),
 "C11": ("exploration", "Go race detector (exploration mode, reports parsed from its log) + conservation / scrape-log / porcupine linearizability checkers over a concurrent stress workload",
   "9/160 fresh runs of a real Runtime with 3 programs fed 0.7-4k lines while a tight Store.Gc loop, six export loops (Prometheus, /json, /varz, /graphite, statsd, collectd) and, in half the runs, a comment-only reloader run concurrently under -race with GOMAXPROCS 2/4/16 and PRNG jitter at the VM line hook; measured overlaps (exports / GC passes begun during a VM line) must exceed a floor. Race reports with mtail frames are violations (de-duplicated by access pair); counters must equal the increments performed; per-path counter samples monotone and <= final; gauge samples must have been written; histograms untorn; 200/5000 porcupine histories (4 clients) on one datum against register and counter models.",
   "The race detector sees only accesses this workload performs; schedules are provoked, not enumerated; reloads are comment-only so data must be carried over.", "§4 C11"),
 "C12": ("fault_enumeration", "fault injection at every export failure point + post-attempt lock/goroutine oracle (run under -race)",
   "Complete grid for stores up to 3x3 (thorough 4x4): Prometheus Write and /metrics with each kind of unrepresentable item at every (metric, label set); graphite/statsd/collectd with a writer failing at every k-th write (through the verif write hook) and real tcp/unix/udp peers closing early; /varz /graphite /json with the request cancelled before the first metric and at every response write, with and without a failing ResponseWriter. After each attempt TryLock on every metric, no goroutine parked in EmitLabelSets, and a write-locking update plus another export complete.",
   "The lock oracle is time-free; the leaked-goroutine verdict polls for 1s before deciding; the progress probe has a 90s watchdog.", "§4 C12"),
 "C13": ("exploration", "expected-exposition monitor: store spec vs parsed Prometheus text, both scrape paths",
   "3k/150k random stores (every kind/type, 0-3 keys, 0-5 label sets, extreme and non-finite values, hostile label values incl. invalid UTF-8, same name in several programs) scraped through registry+promhttp handler and through Exporter.Write with prog label and timestamps on/off; parsed with expfmt and compared series by series (name, labels, type, bit-exact value, cumulative buckets, +Inf=count, sum, timestamps in ms).",
   "expfmt.TextParser trusted; String-typed non-text metrics: value not checked; known finding C13-b (Write path, same name with different key sets).", "§4 C13"),
 "C14": ("exploration", "reference model of the intended store over reload histories on a real Runtime+Store+Prometheus registry (under -race)",
   "Every history of length <=2 (quick) / <=3 (thorough) over {load one of 11 versions (identical, comment appended, declaration moved, kind/type/keys changed, declaration removed/added, syntax error, kind clash with a second program), two line batches, GC, unload} after a fixed prefix, plus 150/5000 random length-8 histories; after every step: identical reload changes nothing (snapshot, metric identity, load counter), kept declarations keep values and pending expiry, a failed load leaves the export identical and the old version still updates it, the scrape succeeds without duplicate series, values follow the model.",
   "For declarations that were not kept the model adopts the observed value (unspecified by the statement); barrier lines make line processing complete before observation.", "§4 C14"),
 "C15": ("exploration", "reference splitter vs real LineReader, exhaustive over short streams/chunkings",
   "Every byte string of length <=5 (quick) / <=7 (thorough) over {LF,CR,'a',0xC3,0xA9} x every chunking x buffer sizes {1,2,3,5,8,64} x 3 reader behaviours (1.0M / 90M runs), plus long random streams (lines longer than the 128KiB buffer, chunk sizes around 131072) through the default buffer.",
   "Reader driven as the streams drive it (ReadAndSend until (0,EOF), then Finish).", "§4 C15"),
 "C16": ("exploration", "reference model of file generations vs real Tailer+fileStream on the real filesystem, step barriers through harness-controlled wakers (under -race)",
   "Every history of length <=3 (quick) / <=4 (thorough) over {append line, fragment, CRLF line, truncate, rename+create, copy+truncate, delete, recreate, poll} plus 300/3000 random histories of length 12/40, a fifth of them with content present before tailing begins; after every step a logical barrier (all live streams back at their waker; stream gone after delete; pattern poll done after recreate); the final delivered sequence must equal the model's (unique ids give a first-difference witness).",
   "The barrier makes 'the tailer has observed each step' a logical condition; a stuck barrier is reported with a goroutine dump (violation when the stream did not end / the path was not tailed again, else inconclusive).", "§4 C16"),
 "C17": ("exploration", "offline checker over recorded write and delivery logs of real pipes / sockets / stdin with random chunking, delays and cancellation (under -race)",
   "60/1500 schedules per stream type (named pipe, unix and tcp stream sockets with 1-4 concurrent connections in one-shot and continuous mode, unixgram and udp with 1-3 senders) plus 8/150 stdin runs through a re-exec'd helper: random chunk sizes (cuts inside a line and inside CRLF), random delays, unterminated tails, closes, cancellation before any data / mid-way / after everything. Per writer the delivered lines must equal the written ones in order plus the tail once (or be a prefix after an early cancel), no delivered line may contain two writers' ids, and the output channel must close after the writer closes (pipes, one-shot) or after cancellation.",
   "'Ends' uses a 60s watchdog with a goroutine dump as witness; a 0.5ms broadcast of the stream waker stands in for mtail's poll timer; datagram senders are paced.", "§4 C17"),
 "C18": ("exploration", "reference matcher vs real Tailer on the real filesystem, behavioural probes + step barriers (under -race)",
   "Three fixed configurations x every history of length <=2 (quick) / <=3 (thorough) over 12 steps, plus 120/3000 random configurations (1-3 overlapping absolute/relative patterns, optional ignore regex) with random length-10/15 histories over a 2-directory tree; after each step + pattern poll a unique probe line is appended to every file of the tree: probes of files in the reference matcher's expected set must be delivered exactly once, all others never, and log_count must equal the expected set's size.",
   "Reference matcher is path/filepath.Match over model paths + ignore regex on the base name; relative patterns are exercised by chdir-ing the test process into the tree.", "§4 C18"),
 "C19": ("exploration", "VM line-hook event log + termination watchdog + reference interpreter on the observed interleaving (under -race)",
   "120/1500 one-shot mtail.Server runs over a program directory of 1-3 generated programs (some erroring at runtime) and 1-3 log files with random contents (empty files, final unterminated line), GOMAXPROCS 1/2/4/16 and PRNG jitter at the line hook: Run must return; per program and file the hook log must equal the file's lines in order, each once; the final exported store must equal the reference interpreter run on the interleaving that program actually observed.",
   "60s termination watchdog with goroutine dump as witness; runs needing unspecified reference behaviour are abandoned and counted.", "§4 C19"),
 "C20": ("exploration", "offline interval-order checker over a hook event log (fan-out, reload phases, per-VM line start/end), under -race",
   "40/1500 runs of a real runtime.Runtime with one program reloaded 3-8 times at PRNG-chosen points while 30-80 numbered lines are pushed back to back; a third of line executions are stretched at the VM line hook and the reload hook yields between stopping the old and starting the new version, producing the window the quantifier names (measured: reloads that found the old version still busy at the next fan-out; floor enforced). The event log must show exactly one line_start per line and no line starting before its predecessor ended; the gauge must end at the last sequence number and the counter at N.",
   "Schedules are provoked, not enumerated; one mutex-protected logical clock orders the log; race reports in this workload are attributed to C11.", "§4 C20"),
 "C21": ("exploration", "reference bucketing vs real datum, compiled histogram and exports",
   "3k/200k (declaration, observation sequence) cases with observations at/just below/just above every bound, negatives, ±0, ±Inf, NaN, through datum.Observe and through compiled programs fed log lines; bucket counts, count, bit-exact sum, and the Prometheus/JSON exported upper bounds and cumulative counts compared.",
   "Known finding C21-b (first bound <= 0 not exported) classified by exact shape; float sum compared in observation order.", "§4 C21"),
 "C22": ("exploration", "reference formatters + JSON round-trip decoder vs real handlers and push path",
   "2.1k/100k random stores (pairwise distinct values and timestamps so another label set's data is distinguishable; every kind/type; 0-3 keys incl. unsorted order; non-finite floats; three prefixes; random hostnames) exported via /json, /varz, /graphite and the graphite/statsd/collectd push path (one record per write through the verif write hook); records compared as multisets (label-pair order canonicalised) with reference formatters; JSON decoded field by field.",
   "Label values exclude whitespace and the formats' separators, as the quantifier states; out-of-scope metrics' records ignored; known finding C22-b (JSON with non-finite floats).", "§4 C22"),
 "C23": ("exploration", "AST-equivalence monitor over the real parser/checker/unparser (+ cmd/mfmt binary in thorough)",
   "2k/80k generated well-typed programs with the features a formatter can lose turned up (grouping that overrides precedence at every level pair, hidden/as/limit, tiny bucket bounds, integral float literals, escaped strings and regexes, const fragments, decorators, del after): formatted output must parse and check, have the same normalised AST, and be a fixed point of formatting; thorough also runs the built cmd/mfmt on a sample.",
   "Normaliser ignores positions/types/symbols, treats ConvExpr / implicit MATCH / empty index lists as transparent. Quoted metric names and keys are not generated.", "§4 C23"),
 "C24": ("exploration", "defect-by-construction mutation monitor over the real compiler and Runtime loader",
   "120/4000 base programs x every defect operator (undeclared metric, $k beyond groups, unknown $name, sibling-pattern capture, undefined decorator, next outside decorator, key too many/few, redeclared, unused declaration incl. nested and hidden, invalid regexes, regex over default/custom limits, Int / and % by literal 0) at every eligible site (~13k / ~430k mutants): each must be rejected with an error whose position lies inside the source; a sample is loaded through Runtime.CompileAndRun with the line hook verifying no VM runs and the load-error counter moves.",
   "Defect classes are guaranteed by how each operator is built; positions parsed from the error text.", "§4 C24"),
 "C25": ("exploration", "end-of-run reconciliation of expvar counters and the /metrics scrape with ground truth from hooks, the harness's write log, the reference interpreter and a load-event model (under -race)",
   "40/1500 end-to-end runs of the real mtail.Server with harness-controlled wakers: program directory with two fixed programs clashing in kind (second refused at registration), a syntactically broken one and 1-2 generated ones (runtime errors); 5-12 steps of log appends to two files (one discovered by glob), a rotation, comment-only program edits, removals / re-adds and plain rescans each via SIGHUP. At the quiescent end lines_total, log_lines_total[path], log_count, prog_loads / unloads / load_errors_total and prog_runtime_errors_total are reconciled, then read again as mtail_* series from a scrape over the server's unix socket.",
   "One server at a time per process (expvars are global; unique program names and deltas are used); written lines == delivered lines relies on the step barriers (C16).", "§4 C25"),
 "C26": ("exploration", "executable model of the statement vs real runtime.Runtime over filesystem histories, observed at the VM line hook (under -race)",
   "Every history of length <=2 (quick) / <=3 (thorough) over 17 steps on two program files plus 150/6000 random length-12 histories over three, in a real directory that also holds a dot-file, a README, a .bak file and a sub-directory all containing valid programs; after every step + LoadAllPrograms a numbered probe line (followed by two barrier lines that make its processing complete) is pushed; the (program, VM) pairs that processed it, the marker gauge of each running version, probe counters and prog_loads/unloads/load_errors_total are compared with the model.",
   "Barrier lines make 'who processed the probe' a logical, not timed, observation.", "§4 C26"),
}
NOT_APPLICABLE = {}

def hook_commits():
    try:
        out = subprocess.run(["git","-C","/repo","log","--format=%h %s"],capture_output=True,text=True).stdout
        return [l.split()[0] for l in out.splitlines() if " verif-hook:" in l or l.split(" ",1)[1].startswith("verif-hook")]
    except Exception:
        return []


# additions made while strengthening the checks against independently seeded
# changes (DESIGN.md Appendix F.2); appended to the level text
EXTRA = {
 "C01": "Generator also covers: the same pattern text matched against a second subject inside the first one's block, m++/m-- used for its value, writes/del reusing an earlier label tuple, `expr || e =~ /re/` conditions, decorator definitions whose next sits under two nested capturing conditions. Compilers are long-lived and pooled (a compile must not depend on what was compiled before). Also: $0 (through a metric only ever indexed by it), patterns without capture groups, and a grid of every Int operator on run-time operands over all pairs of 11 small values against reference arithmetic.",
 "C02": "Grid also covers the 5 shift/bitwise operators on Int x Int (5684 cells); the optimising side uses pooled long-lived compilers; a panic on either side is captured as a violation.",
 "C03": "Further structured families: every binary operator x every pair of 16 hostile constant operands (as value, as condition, with a non-constant sibling); every place a pattern expression can stand x 27 shapes of pattern expression; const fragments defined from fragments (doubling chains, memory watchdog); characters Unicode classes as digits/letters/spaces at every kind of position; every short token lexed as a duration or number (25k inputs quick).",
 "C04": "Plus a grid of 17 operators and 8 numeric builtins on runtime (captured) operands over all pairs of 16 Int / 14 Float boundary values, and one single-VM history of 3.4k/23k lines with distinct timestamps through strptime. Also lines of hostile length / encoding that raise checked errors (multi-byte characters across offsets 62..4094, continuation-byte tails), under the stall oracle.",
 "C05": "Plus 6 pinned per-line-state shapes (captures behind a short-circuit / in a branch not taken, time register, matched flag, stop); half of the programs may read captures of conditions that were not evaluated. Also pinned shapes for a line on which an instruction panics and for the same failing line repeated, each with and without runtime-error logging (every third generated program runs with it).",
 "C06": "Every fifth set holds two byte-identical program files; interleaved operations include a reload of a name's first owner with another kind.",
 "C07": "Plus 4 zoned year-less layouts, and 4/60 long histories: one VM, 2.6k/6k lines, ~2k distinct texts in two layouts with revisits 1..2049 distinct texts back.",
 "C09": "Operations also include RemoveOldestDatum and Store.Gc; 150/6000 burst sequences over a 96-tuple universe (grow to <=96, shrink to <=8).",
 "C10": "Each store is judged over 4 GC passes with store mutations (older re-stamps, new marks) between passes 2 and 3; timestamps include two beyond the range of a time.Duration (300 and 335 years back). Also a text metric re-set to the same value (a datum's time must be the instant of its last update) and idle times within a second of the expiry incl. fractional expiries, judged when determinate within the pass bracket.",
 "C11": "Sizes now 6 A/B + 6 C runs (quick), 30 + 16 (thorough). A/B runs add a 4th program whose expiry clock is driven by settime (key written stamped 1970, then stamped now+10h: must end present with 1 or 2) and a new label set every 25 lines; workload C: every line creates a label set, a third of the lines stalled, reloads back to back, conservation per key; one forced schedule (Store.Gc between a line's dload and inc) documents known finding C11-e, whose classifier needs 'in the store at the line's dload, gone at its end' (instruction hook). Every run is guarded by the stall oracle (goroutine dump: lock waits of >= 2 minutes). Two more export loops talk to a client that goes away at the k-th write.",
 "C12": "Plus cancellation at every k-th look the handler takes at the request context, and a concurrent phase (6 exporters x 400/4000 clean, cancelled and failing attempts against 3 writers x 20k/200k write-locking updates incl. GC), run once on a clean store and once per kind of unrepresentable item, judged by the stall oracle; and a real server (debug and info endpoints on) with a client that stops reading a large /varz response: a write-locking update of that metric must complete (stall oracle).",
 "C13": "Plus: a label key literally named prog; pairs of label sets differing only in where a separator-like character sits; a second scrape with the same exporter after every value changed while its timestamp stayed the same; a concurrent phase (2 x 200/4000 scrapes while 2 mutators remove and re-create label sets; a label set no mutation of which overlaps the scrape on the shared logical clock must be listed exactly once with its value; no series twice; the scrape succeeds). In every fifth store the exporter's own context is cancelled before the second scrape.",
 "C14": "13 versions now (also: kind changed on a later declaration, kind clash between two declarations of the program itself). Every third history runs with -omit_metric_source, every fourth with runtime-error logging; versions add a histogram and edit its boundaries (directed histories), with the oracle that a histogram's buckets hold exactly its count.",
 "C15": "Plus 6k/300k generation runs: reader A goes through 2-4 generations (Finish after each, then reused, as the file streams do at truncation) while a second reader created after A's first Finish interleaves its reads. The alphabets include NUL.",
 "C16": "Three pre-existing-content modes (none / unterminated / terminated and not read from the start). Steps also include a fragment ending in CR and an LF alone (CR and LF in different appends).",
 "C17": "Plus 200/2000 special schedules: cancellation while a single small write (many lines + tail) is still being handed to a slow consumer (everything read must come out); one unixgram sender building a newline-free backlog up to the read-buffer size followed by a large datagram; connections arriving in a storm while the stream is cancelled. Datagram senders send empty datagrams in between.",
 "C18": "Steps also include a directory replaced by a file of the same name (and back) within one step. Patterns also include literal patterns spelled non-canonically or with glob quoting; file names include '#', '?' and '%41'.",
 "C19": "Every 8th run has a file larger than the read buffer with an LF/CRLF line end placed on the buffer boundary and, half of the time, a line longer than two buffers; two thirds of the runs configure an HTTP listener (unix socket / tcp) as the binary does; the last run(s) are stalled at the hook to last 6.5 s (thorough also 35 s). Every fourth run finds its logs through one glob that also matches a stale unix socket file sorting first.",
 "C20": "The last run(s) hold one line for 1.6 s (thorough also 6 s and 31 s) with a reload requested meanwhile; every run is guarded by the stall oracle. Every third run alternates versions that change the kind of an exported metric.",
 "C21": "Bounds pool includes negative fractions; whole-number observations also go through an Int-typed capture into a third histogram; a fourth histogram's label sets are deleted and re-created (each must start from nothing); one case in five declares 9-48 boundaries.",
 "C22": "A third of the stores are exported after a Prometheus scrape and aborted /varz and /graphite requests with the same exporter; plus a concurrent phase (6 formats x 150/3000 exports against 2 mutators, logical-clock stability oracle: exactly one record with its own value for every label set no mutation of which overlaps the export). Plus a real PushMetrics run with graphite (tcp), collectd (unix) and statsd (udp) targets configured at once: each collector must receive its own format's records, once.",
 "C23": "Generator also emits literals with a backslash right before their own delimiter and del-after durations that are not a whole number of seconds. Half of the programs are rendered fully parenthesised before formatting; literals include non-ASCII text.",
 "C24": "Operators also: unused declaration inside a decorator definition, pattern over the length limit only as a whole (literal + const, short literal + const + const); the Runtime sample is a submission history (defective, same bytes again, valid base, defective again). Operators also: defects inside operands whose value cannot matter (x * 0, x ** 0, true || x), patterns over the limit in bytes but under it in characters.",
 "C25": "Plus 25/600 shutdown runs (burst of lines, slow programs, wake-up, immediate cancel; lines_total == fan-out count == sum of log_lines_total after Run returned); the refused program clashes on two names in odd runs. Runs rotate through the binary's default / common options (runtime-error logging, omit source, emit timestamp, current year, omit prog label); a log reached through a symbolic link; log_lines_total[name] must equal the delivered lines carrying that name.",
 "C26": "Plus histories (exhaustive to length 3/4) over a program that is a symlink to a file outside the directory whose target can be moved away (entry present, unreadable) and back. Plus the whole program directory away for one reload.",
 "C08": "Also a raw-byte alphabet (invalid UTF-8 bytes, case pairs) with rune-wise / case-folding naive encodings.",
}

props = [json.loads(l)["id"] for l in open(os.path.join(ROOT,"properties.jsonl"))]
checks = []
for pid in props:
    if pid not in CHECKS: continue
    cat, tech, text, note, ref = CHECKS[pid]
    checks.append({
      "property_id": pid,
      "quick_cmd": f"./check {pid} quick",
      "thorough_cmd": f"./check {pid} thorough",
      "evidence_file": f"/verif/evidence/{pid}.json",
      "replay_cmd_template": f"./check {pid} --replay {{path}}",
      "engine": "harness",
      "level_claimed": {"category": cat, "text": text + (" " + EXTRA[pid] if pid in EXTRA else ""), "design_ref": ref},
      "level_note": note,
      "technique": tech,
    })
na = [{"property_id": p, "reason": NOT_APPLICABLE.get(p, "not yet built in this round: monitor designed in DESIGN.md §4 but not implemented/validated, so not claimed")} for p in props if p not in CHECKS]
m = {
 "version": 1,
 "setup_cmd": "./check --setup",
 "hooks": {
   "guard": "verif",
   "enable": "go test -tags verif (the harness module replaces github.com/google/mtail with /repo, so every check recompiles /repo's working tree with the tag on)",
   "baseline_off_cmd": "cd /repo && GOFLAGS=-mod=mod GOPROXY=off GOSUMDB=off go test -vet=off -count=1 -timeout 25m ./...",
   "source_commits": hook_commits(),
   "add_only": True,
 },
 "engines": [{"name": "harness", "path": "/verif/harness", "serves_properties": [c["property_id"] for c in checks],
   "kind_free_text": "Go module github.com/google/mtail/verif importing mtail's internal packages from /repo; one `go test` monitor package per property, driven by ./check"}],
 "checks": checks,
 "not_applicable": na,
 "notes": "Technique family: runtime monitoring and sanitizers. Exit codes of ./check: 0 held, 1 violation (VIOLATION line), 2 inconclusive/build failure. Known findings: /verif/known_findings.json.",
}
json.dump(m, open(os.path.join(ROOT,"MANIFEST.json"),"w"), indent=1)
print("checks:", len(checks), "not_applicable:", len(na))
