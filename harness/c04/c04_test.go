//go:build verif

// C04 — accepted programs never fault inside the VM.
// Monitors: (1) per-instruction precondition monitor at the verif hook;
// (2) classification of every runtime error message into "explicit checked
// condition" / "internal fault" / unclassified; (3) panic and
// instruction-count watchdog.
package c04

import (
	"fmt"
	"os"
	"path/filepath"
	"regexp"
	"runtime"
	"sort"
	"strings"
	"sync"
	"testing"
	"time"

	"github.com/google/mtail/internal/runtime/code"
	"github.com/google/mtail/internal/runtime/vm"
	"github.com/google/mtail/verif/ev"
	"github.com/google/mtail/verif/gen"
	"github.com/google/mtail/verif/mt"
)

type caseCtx struct {
	mu        sync.Mutex
	instrs    int64
	lineInstr int64
	opcodes   map[code.Opcode]int64
	fault     string // first precondition report
	faultAt   string
	prevOp    code.Opcode
	lastOp    code.Opcode
}

var ctxs sync.Map // VM name -> *caseCtx

const maxInstrPerLine = 2_000_000

func hook(in *vm.VerifInstr) {
	v, ok := ctxs.Load(in.VMName)
	if !ok {
		return
	}
	c := v.(*caseCtx)
	c.instrs++
	c.lineInstr++
	c.opcodes[in.Instr.Opcode]++
	if c.lineInstr > maxInstrPerLine {
		panic("verif: instruction budget exceeded (non-terminating program?)")
	}
	c.prevOp, c.lastOp = c.lastOp, in.Instr.Opcode
	if c.fault == "" {
		if s := precondition(in); s != "" {
			c.fault = s
			c.faultAt = fmt.Sprintf("pc=%d instr=%v stack=%s", in.PC, in.Instr, stackKinds(in.Stack))
		}
	}
}

func stackKinds(s []interface{}) string {
	var k []string
	for _, v := range s {
		k = append(k, fmt.Sprintf("%T", v))
	}
	return "[" + strings.Join(k, " ") + "]"
}

var allowedErr = []*regexp.Regexp{
	regexp.MustCompile(`^strconv\.Parse(Int|Float):`),
	regexp.MustCompile(`conversion of .* failed`),
	regexp.MustCompile(`^Divide by zero`),
	regexp.MustCompile(`^shift int out of range`),
	regexp.MustCompile(`^int32 (index )?out of range`),
	regexp.MustCompile(`^strptime .* failed`),
	regexp.MustCompile(`^Not enough capture groups matched`),
	regexp.MustCompile(`^No datum for given labelvalues`),
}
var faultErr = []*regexp.Regexp{
	regexp.MustCompile(`panic in thread`),
	regexp.MustCompile(`(?i)unexpected .*type`),
	regexp.MustCompile(`Unexpected value on stack`),
	regexp.MustCompile(`Invalid re index|Invalid operand`),
	regexp.MustCompile(`illegal instruction`),
	regexp.MustCompile(`dload \(GetDatum\) failed|del \(RemoveDatum\) failed`),
	regexp.MustCompile(`unexpected operator type`),
	regexp.MustCompile(`Label values requested`),
}

// classify returns "allowed", "fault" or "unclassified" for a runtime error.
func classify(msg string) string {
	first := strings.TrimLeft(strings.SplitN(msg, "\n", 2)[0], "+")
	if strings.HasPrefix(first, "cannot compare") {
		// generic Cmp: a failed string-to-number conversion when a string
		// operand is involved, a type fault otherwise
		if strings.Contains(first, "string") {
			return "allowed"
		}
		return "fault"
	}
	for _, re := range faultErr {
		if re.MatchString(first) {
			return "fault"
		}
	}
	for _, re := range allowedErr {
		if re.MatchString(first) {
			return "allowed"
		}
	}
	if strings.HasPrefix(first, "Failed to pop a timestamp") {
		return "fault"
	}
	return "unclassified"
}

// knownShape maps a precondition report to the id of a recorded finding, or "".
// Each id names one family of ill-typed programs the checker accepts; the
// classifier is keyed by the instruction family and the offending operand
// representation, so any other fault is still a violation.
var voidAsValue = regexp.MustCompile(`(\[|\(|, |= |\+ |- |\* |/ |% |< |> |& |\| |\^ |~)(settime|strptime)\(`)

func knownShape(c *caseCtx, src string) string {
	f := c.fault
	switch {
	case strings.Contains(f, "is bool, not ") || strings.HasPrefix(f, "cmp rhs is bool") || strings.HasPrefix(f, "cmp lhs is bool"):
		return "C04-a" // Bool-typed expression used as a value
	case strings.Contains(f, "is float64, not int-like"):
		return "C04-b" // Float where the instruction needs an Int
	case strings.HasPrefix(f, "conditional jump on string") || strings.HasPrefix(f, "conditional jump on float64") || strings.HasPrefix(f, "not on "):
		return "C04-c" // non-boolean operand of && / || / !~
	case strings.Contains(f, "on datum of type *datum.Buckets") || strings.Contains(f, "is *datum.Buckets, not "):
		return "C04-d" // histogram used as a scalar
	case strings.HasPrefix(f, "strptime time operand is int64") || strings.HasPrefix(f, "strptime time operand is float64"):
		return "C04-e" // strptime on a numerically typed capture
	case strings.HasPrefix(f, "stack underflow") && voidAsValue.MatchString(src):
		return "C04-f" // settime()/strptime() used as a value
	}
	return ""
}

type witness struct {
	Source  string   `json:"program_source"`
	Program string   `json:"program"`
	Lines   []string `json:"lines"`
	What    string   `json:"what"`
	At      string   `json:"at,omitempty"`
	Err     string   `json:"runtime_error,omitempty"`
}

// runProgram executes src on lines under all monitors.
func runProgram(r *ev.Run, origin, src string, lines []string, cov map[code.Opcode]int64, covMu *sync.Mutex) (accepted bool) {
	name := mt.UniqueName("c04p")
	p, err := mt.Load(name, src, mt.VMOpts{})
	if err != nil || p == nil {
		return false
	}
	defer p.Close()
	ctx := &caseCtx{opcodes: map[code.Opcode]int64{}}
	ctxs.Store(name, ctx)
	defer ctxs.Delete(name)
	classes := map[string]int{}
	for li, line := range lines {
		ctx.lineInstr = 0
		var panicked any
		errd := func() (e bool) {
			defer func() {
				if rec := recover(); rec != nil {
					panicked = rec
				}
			}()
			return p.Line("logfile", line)
		}()
		w := witness{Source: origin, Program: src, Lines: lines[:li+1]}
		if panicked != nil {
			w.What = fmt.Sprint("panic escaped the VM: ", panicked)
			r.Violation("panic", w)
			return true
		}
		if ctx.fault != "" {
			w.What, w.At = "instruction precondition violated: "+ctx.fault, ctx.faultAt
			if errd {
				w.Err = p.VM.RuntimeErrorString()
			}
			if id := knownShape(ctx, src); id != "" {
				r.Known(id, w)
				r.Count("known_"+id, 1)
				return true
			}
			r.Violation("precondition-"+firstWords(ctx.fault, 3), w)
			return true
		}
		if errd {
			msg := p.VM.RuntimeErrorString()
			c := classify(msg)
			classes[c]++
			switch c {
			case "fault":
				w.What, w.Err = "runtime error is an internal VM fault, not an explicit checked condition", msg
				r.Violation("fault-"+firstWords(strings.TrimLeft(msg, "+"), 3), w)
				return true
			case "unclassified":
				r.Inconclusive("unclassified runtime error message: " + strings.SplitN(msg, "\n", 2)[0])
			default:
				r.Count("err_"+firstWords(strings.TrimLeft(msg, "+"), 2), 1)
			}
		}
	}
	covMu.Lock()
	for k, v := range ctx.opcodes {
		cov[k] += v
	}
	covMu.Unlock()
	r.Count("instructions_monitored", int(ctx.instrs))
	r.Count("lines_executed", len(lines))
	return true
}

func firstWords(s string, n int) string {
	f := strings.Fields(strings.SplitN(s, "\n", 2)[0])
	if len(f) > n {
		f = f[:n]
	}
	return strings.Join(f, "-")
}

// ---------------------------------------------------------------------
// loose programs: type-confusing textual mutations of rendered programs;
// whatever the compiler accepts is kept.

var (
	reCapref = regexp.MustCompile(`\$[a-z0-9_]+`)
	reMetric = regexp.MustCompile(`\bm\d+\b`)
	reNum    = regexp.MustCompile(`-?\b\d+(\.\d+)?\b`)
	reStr    = regexp.MustCompile(`"[^"\n]*"`)
	reOp     = regexp.MustCompile(` (\+|-|\*|/|%|\*\*|<<|>>|&|\||\^|<|<=|>|>=|==|!=|&&|\|\|) `)
	reCall   = regexp.MustCompile(`\b(int|float|string|len|tolower|strtol|subst|settime|timestamp|getfilename)\(`)
)

func replaceNth(re *regexp.Regexp, s string, n int, with func(string) string) string {
	locs := re.FindAllStringIndex(s, -1)
	if len(locs) == 0 {
		return s
	}
	l := locs[n%len(locs)]
	return s[:l[0]] + with(s[l[0]:l[1]]) + s[l[1]:]
}

func loosen(r *ev.RNG, src string) string {
	n := 1 + r.Intn(3)
	for k := 0; k < n; k++ {
		switch r.Intn(9) {
		case 0: // capref -> another capref of the program
			all := reCapref.FindAllString(src, -1)
			if len(all) > 0 {
				src = replaceNth(reCapref, src, r.Intn(1000), func(string) string { return ev.PickOne(r, all) })
			}
		case 1: // metric -> another metric (possibly of another type / arity)
			all := reMetric.FindAllString(src, -1)
			if len(all) > 0 {
				src = replaceNth(reMetric, src, r.Intn(1000), func(string) string { return ev.PickOne(r, all) })
			}
		case 2: // number -> string / other number
			src = replaceNth(reNum, src, r.Intn(1000), func(string) string {
				return ev.PickOne(r, []string{"\"x\"", "\"12\"", "1.5", "0", "-1", "9223372036854775807", "\"\""})
			})
		case 3: // string -> number / capref
			src = replaceNth(reStr, src, r.Intn(1000), func(string) string { return ev.PickOne(r, []string{"1", "2.5", "$1", "\"7\""}) })
		case 4: // operator swap
			src = replaceNth(reOp, src, r.Intn(1000), func(string) string {
				return " " + ev.PickOne(r, []string{"+", "-", "*", "/", "%", "**", "<<", ">>", "&", "|", "^", "<", "<=", ">", ">=", "==", "!=", "&&", "||"}) + " "
			})
		case 5: // drop a conversion
			src = replaceNth(regexp.MustCompile(`\b(int|float|string)\(`), src, r.Intn(1000), func(string) string { return "(" })
		case 6: // swap a builtin
			src = replaceNth(reCall, src, r.Intn(1000), func(string) string {
				return ev.PickOne(r, []string{"int(", "float(", "string(", "len(", "tolower(", "strtol("})
			})
		case 7: // turn a statement into strptime on a capture
			all := reCapref.FindAllString(src, -1)
			if len(all) > 0 {
				c := ev.PickOne(r, all)
				src = replaceNth(regexp.MustCompile(`(?m)^(\s*)stop$|^(\s*)m\d+\+\+$`), src, r.Intn(1000), func(s string) string {
					ind := s[:len(s)-len(strings.TrimLeft(s, " "))]
					return ind + "strptime(" + c + ", \"2006-01-02\")"
				})
			}
		case 8: // metric kind/typing stress: text <-> gauge
			src = replaceNth(regexp.MustCompile(`(?m)^(hidden )?(text|gauge|counter|timer) `), src, r.Intn(1000), func(s string) string {
				h := ""
				if strings.HasPrefix(s, "hidden ") {
					h = "hidden "
				}
				return h + ev.PickOne(r, []string{"text ", "gauge ", "counter ", "timer "})
			})
		}
	}
	return src
}

type example struct {
	src   string
	name  string
	lines []string
}

func loadExamples() []example {
	pairs := [][2]string{{"rsyncd.mtail", "rsyncd.log"}, {"sftp.mtail", "sftp_chroot.log"}, {"ntpd.mtail", "ntp4"}, {"ntpd_peerstats.mtail", "xntp3_peerstats"},
		{"apache_combined.mtail", "apache-combined.log"}, {"apache_common.mtail", "apache-common.log"}, {"vsftpd.mtail", "vsftpd_log"}, {"vsftpd.mtail", "vsftpd_xferlog"},
		{"lighttpd.mtail", "lighttpd_access.log"}, {"mysql_slowqueries.mtail", "mysql_slowqueries.log"}, {"dhcpd.mtail", "anonymised_dhcpd_log"},
		{"linecount.mtail", "rsyncd.log"}, {"postfix.mtail", "rsyncd.log"}, {"rails.mtail", "apache-common.log"}, {"timer.mtail", "rsyncd.log"}, {"histogram.mtail", "rsyncd.log"}}
	var out []example
	for _, p := range pairs {
		b, err := os.ReadFile(filepath.Join(ev.Repo(), "examples", p[0]))
		if err != nil {
			continue
		}
		lb, _ := os.ReadFile(filepath.Join(ev.Repo(), "internal/mtail/testdata", p[1]))
		lines := strings.Split(strings.TrimRight(string(lb), "\n"), "\n")
		if len(lines) > 60 {
			lines = lines[:60]
		}
		out = append(out, example{string(b), p[0], lines})
	}
	return out
}

func TestC04(t *testing.T) {
	r := ev.Start(t, "C04", "exploration")
	defer r.Finish()
	h := hook
	vm.VerifInstrHook.Store(&h)
	defer vm.VerifInstrHook.Store(nil)
	r.Rule("programs the real compiler accepts: (a) the example programs over their testdata logs (also validates the precondition table: must be silent), (b) well-typed generator output, (c) 'loose' programs = generator output after 1-3 type-confusing textual mutations (capture/metric/literal/operator/builtin swaps, dropped conversions, strptime on captures, kind changes), (d) the same mutations applied to the example programs. Every instruction is checked against the per-opcode precondition table before it executes; every runtime error message is classified. Non-trivial: accepted program that executed >=20 instructions; distinct by program text.")
	r.Assume("precondition table = what each case of vm.execute handles without reaching an 'unexpected…'/panic path (DESIGN.md App. B)", "a runtime-error message in neither the allowed nor the fault family makes the run inconclusive, never a violation", "'cannot compare' counts as a failed string-to-number conversion only when a string operand is involved")
	cov := map[code.Opcode]int64{}
	var covMu sync.Mutex
	exs := loadExamples()
	for _, e := range exs {
		if runProgram(r, "example "+e.name, e.src, e.lines, cov, &covMu) {
			r.Count("examples_run", 1)
			r.Distinct(e.src)
		}
		r.Eval(1)
	}
	if r.Violations() > 0 {
		return
	}
	// pinned witnesses of the recorded findings (printed on every run while they stand)
	for _, pw := range [][2]string{
		{"gauge g\n/a=(\\d+)/ {\n  g = 1 + ($1 < 3)\n}\n", "a=1"},
		{"gauge g\n/a=(\\d+)/ {\n  g = $1 | 0.5\n}\n", "a=1"},
		{"counter c\n/b=(\\w+)/ {\n  $1 && \"x\" {\n    c++\n  }\n}\n", "b=foo"},
		{"histogram h buckets 1, 2\n/a=(\\d+)/ {\n  h++\n}\n", "a=1"},
		{"counter c\n/a=(\\d+)/ {\n  strptime($1, \"2006\")\n  c++\n}\n", "a=2021"},
		{"counter c by k\n/a=(\\d+)/ {\n  c[settime($1)]++\n}\n", "a=1"},
	} {
		runProgram(r, "pinned witness", pw[0], []string{pw[1]}, cov, &covMu)
		r.Eval(1)
	}

	// every arithmetic / bitwise / relational operator and numeric builtin on
	// RUNTIME operands (captures, so nothing is folded), over all pairs of
	// boundary values: the VM's arithmetic must raise its checked errors or
	// compute something, never fault
	ints := []string{"0", "1", "-1", "2", "-2", "3", "10", "63", "64", "-64", "65", "4294967296", "9007199254740993", "9223372036854775807", "-9223372036854775808", "-9223372036854775807"}
	floats := []string{"0.0", "-0.0", "1.0", "-1.0", "0.5", "-0.5", "2.5", "1e308", "-1e308", "5e-324", "1e-9", "64.0", "-64.0", "9.3e18"}
	var ipairs, fpairs []string
	for _, a := range ints {
		for _, b := range ints {
			ipairs = append(ipairs, "i "+a+" "+b)
		}
	}
	for _, a := range floats {
		for _, b := range floats {
			fpairs = append(fpairs, "f "+a+" "+b)
		}
		for _, b := range ints[:10] {
			fpairs = append(fpairs, "m "+a+" "+b)
		}
	}
	for _, op := range []string{"+", "-", "*", "/", "%", "**", "<<", ">>", "&", "|", "^", "<", "<=", ">", ">=", "==", "!="} {
		rel := strings.ContainsAny(op, "<>=!") && op != "<<" && op != ">>"
		body := func(a, b string) string {
			if rel {
				return "  " + a + " " + op + " " + b + " {\n    c++\n  }\n"
			}
			return "  g = " + a + " " + op + " " + b + "\n  gk[" + a + " " + op + " " + b + "]++\n"
		}
		decls := "gauge g\ngauge gk by k\n"
		if rel {
			decls = "counter c\n"
		}
		src := decls + "/^i (-?\\d+) (-?\\d+)$/ {\n" + body("$1", "$2") + "}\n"
		grid := op + " Int"
		if !runProgram(r, "operator grid "+op+" Int", strings.ReplaceAll(src, "\\n", "\n"), ipairs, cov, &covMu) {
			r.Count("operator_grid_programs_rejected:"+grid, 1)
		}
		r.Eval(1)
		if !strings.ContainsAny(op, "&|^") && op != "<<" && op != ">>" {
			fsrc := decls + "/^f (\\S+) (\\S+)$/ {\n" + body("float($1)", "float($2)") + "}\n/^m (\\S+) (-?\\d+)$/ {\n" + body("float($1)", "$2") + body("$2", "float($1)") + "}\n"
			grid = op + " Float"
			if !runProgram(r, "operator grid "+op+" Float", strings.ReplaceAll(fsrc, "\\n", "\n"), fpairs, cov, &covMu) {
				r.Count("operator_grid_programs_rejected:"+grid, 1)
			}
			r.Eval(1)
		}
	}
	for _, f := range []string{"int(float($1))", "float($1)", "strtol(\"1\", $1)", "strtol(\"zz\", $1)", "len(string($1))", "settime($1)", "~$1", "-$1"} {
		stmt := "  g = " + f + "\n"
		if strings.HasPrefix(f, "settime") {
			stmt = "  " + f + "\n  g = timestamp()\n"
		}
		src := "gauge g\n/^i (-?\\d+) (-?\\d+)$/ {\n" + stmt + "}\n"
		grid := f
		if !runProgram(r, "builtin grid "+f, strings.ReplaceAll(src, "\\n", "\n"), ipairs, cov, &covMu) {
			r.Count("operator_grid_programs_rejected:"+grid, 1)
		}
		r.Eval(1)
	}
	r.Count("operator_grid_lines", 17*len(ipairs)+12*len(fpairs))
	// lines that are hostile to whatever handles the line text itself (error
	// messages quote it): lengths around powers of two, multi-byte characters
	// at and across every such offset, tails of continuation bytes, invalid
	// UTF-8 — each raising a checked runtime error
	var hostile []string
	for _, n := range []int{62, 126, 254, 510, 1022, 4094} {
		for d := -3; d <= 6; d++ {
			base := strings.Repeat("a", n+d)
			hostile = append(hostile, base, base+"é", base+"€", base+"𝟙", base+"\xa9", base+"\x80\x80\x80", base+"\xff", base+"é"+strings.Repeat("\x80", 5))
		}
	}
	r.Guard("runtime errors raised on lines of hostile length / encoding", func() {
		runProgram(r, "hostile lines", "gauge g\n/^(.*)$/ {\n  g = int($1)\n}\n", hostile, cov, &covMu)
		runProgram(r, "hostile lines", "counter c by k\n/^(?P<x>.*)$/ {\n  c[$x] += 3 / len(\"\")\n}\n", hostile, cov, &covMu)
	})
	r.Eval(2)
	r.Count("hostile_lines", 2*len(hostile))
	// one VM over a long input: thousands of distinct values through every
	// instruction that keeps per-VM state between lines (strptime's memo)
	var long []string
	for i := 0; i < ev.Pick(3000, 20000); i++ {
		long = append(long, fmt.Sprintf("t=%s n=%d", time.Unix(1600000000+int64(i)*3607, 0).UTC().Format("2006-01-02T15:04:05Z"), i))
		if i%7 == 6 {
			long = append(long, long[len(long)-1-(i*13)%len(long)])
		}
	}
	if !runProgram(r, "long history", "counter c by n\ngauge ts\n/t=(\\S+) n=(\\d+)/ {\n  strptime($1, \"2006-01-02T15:04:05Z07:00\")\n  ts = timestamp()\n  c[$2 % 7]++\n}\n", long, cov, &covMu) {
		r.Inconclusive("the long-history program was rejected by the compiler")
	}
	r.Eval(1)
	r.Count("long_history_lines", len(long))

	n := ev.Pick(4000, 60000)
	nlines := ev.Pick(12, 16)
	rng := ev.NewRNG(ev.Seed(), "c04")
	ev.Parallel(n, runtime.GOMAXPROCS(0), func(i int) {
		g := rng.Sub(i)
		var origin, src string
		var lines []string
		switch {
		case i%8 == 7 && len(exs) > 0:
			e := exs[g.Intn(len(exs))]
			origin, src, lines = "mutated example "+e.name, loosen(g, e.src), e.lines
		case i%4 == 0:
			p := gen.Generate(g, gen.Opts{Strptime: true, ErrHeavy: i%3 == 0, ElseOtherwise: true, SelfNestedDeco: false})
			origin, src = "well-typed", (&gen.Renderer{Full: g.Bool(), IndexStyle: g.Intn(2)}).Render(p)
		default:
			p := gen.Generate(g, gen.Opts{Strptime: true, ErrHeavy: i%3 == 0, ElseOtherwise: true})
			origin, src = "loose", loosen(g, (&gen.Renderer{Full: g.Bool(), IndexStyle: g.Intn(2)}).Render(p))
		}
		if lines == nil {
			lines = make([]string, nlines)
			for k := range lines {
				lines[k] = gen.GenLine(g)
			}
		}
		before := r.Get("instructions_monitored")
		ok := runProgram(r, origin, src, lines, cov, &covMu)
		r.Eval(1)
		if !ok {
			r.Count("rejected_by_compiler", 1)
			return
		}
		r.Count("accepted_"+strings.Fields(origin)[0], 1)
		_ = before
		r.Distinct(src)
		if i < 6 && i%2 == 1 {
			r.Sample(map[string]any{"origin": origin, "program": src})
		}
	})
	names := map[string]int64{}
	var low []string
	for op := code.Stop; op <= code.Rsubst; op++ {
		names[op.String()] = cov[op]
		if cov[op] < 50 {
			low = append(low, op.String())
		}
	}
	r.Set("opcode_executions", names)
	sort.Strings(low)
	if len(low) > 0 {
		r.Inconclusive("opcodes executed fewer than 50 times: " + strings.Join(low, ","))
	}
	r.Floor("accepted_loose", 200)
}
