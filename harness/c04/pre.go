//go:build verif

package c04

import (
	"fmt"
	"time"

	"github.com/google/mtail/internal/metrics"
	"github.com/google/mtail/internal/metrics/datum"
	"github.com/google/mtail/internal/runtime/code"
	"github.com/google/mtail/internal/runtime/vm"
)

// Per-opcode preconditions, written from code/opcodes.go's comments and from
// what each case of vm.execute handles without reaching an "unexpected …"
// path (DESIGN.md Appendix B).

type cls int

const (
	clsI cls = iota // accepted by PopInt
	clsF            // accepted by PopFloat
	clsS            // accepted by PopString
)

func inCls(v interface{}, c cls) bool {
	switch c {
	case clsI:
		switch d := v.(type) {
		case int64, int, string, time.Time:
			return true
		case datum.Datum:
			_, ok := d.(*datum.Int)
			return ok
		}
	case clsF:
		switch d := v.(type) {
		case float64, int, int64, string:
			return true
		case datum.Datum:
			_, ok := d.(*datum.Float)
			return ok
		}
	case clsS:
		switch d := v.(type) {
		case string, float64, int, int64:
			return true
		case datum.Datum:
			_, ok := d.(*datum.String)
			return ok
		}
	}
	return false
}

func (c cls) String() string { return [...]string{"int-like", "float-like", "string-like"}[c] }

type stackView struct {
	s   []interface{}
	top int
}

func (sv *stackView) pop() (interface{}, bool) {
	if sv.top == 0 {
		return nil, false
	}
	sv.top--
	return sv.s[sv.top], true
}

// precondition returns "" when the instruction's preconditions hold.
func precondition(in *vm.VerifInstr) string {
	sv := &stackView{in.Stack, len(in.Stack)}
	need := func(c cls, what string) string {
		v, ok := sv.pop()
		if !ok {
			return "stack underflow popping " + what
		}
		if !inCls(v, c) {
			return fmt.Sprintf("%s is %T, not %s", what, v, c)
		}
		return ""
	}
	seq := func(cs ...string) string {
		for _, c := range cs {
			if c != "" {
				return c
			}
		}
		return ""
	}
	opInt := func(lo, hi int, what string) string {
		n, ok := in.Instr.Operand.(int)
		if !ok {
			return fmt.Sprintf("operand is %T, not int (%s)", in.Instr.Operand, what)
		}
		if n < lo || n >= hi {
			return fmt.Sprintf("operand %d outside [%d,%d) (%s)", n, lo, hi, what)
		}
		return ""
	}
	metricAndKeys := func(what string) (string, int) {
		n, ok := in.Instr.Operand.(int)
		if !ok {
			return "operand not int", 0
		}
		v, ok := sv.pop()
		if !ok {
			return "stack underflow popping metric", 0
		}
		m, ok := v.(*metrics.Metric)
		if !ok {
			return fmt.Sprintf("%s expects a *Metric on top, found %T", what, v), 0
		}
		if len(m.Keys) != n {
			return fmt.Sprintf("%s with %d keys on a metric of %d keys", what, n, len(m.Keys)), 0
		}
		for k := 0; k < n; k++ {
			if s := need(clsS, "key"); s != "" {
				return s, 0
			}
		}
		return "", n
	}
	datumOf := func(what string, ok func(datum.Datum) bool) string {
		v, have := sv.pop()
		if !have {
			return "stack underflow popping datum"
		}
		d, isD := v.(datum.Datum)
		if !isD {
			return fmt.Sprintf("%s expects a datum, found %T", what, v)
		}
		if !ok(d) {
			return fmt.Sprintf("%s on datum of type %T", what, d)
		}
		return ""
	}
	isInt := func(d datum.Datum) bool { _, ok := d.(*datum.Int); return ok }
	isFloat := func(d datum.Datum) bool { _, ok := d.(*datum.Float); return ok }
	isStr := func(d datum.Datum) bool { _, ok := d.(*datum.String); return ok }
	isBuckets := func(d datum.Datum) bool { _, ok := d.(*datum.Buckets); return ok }

	switch in.Instr.Opcode {
	case code.Stop, code.Timestamp, code.Otherwise, code.Getfilename, code.Push:
		return ""
	case code.Match:
		return opInt(0, len(in.Re), "regexp index")
	case code.Smatch:
		return seq(opInt(0, len(in.Re), "regexp index"), need(clsS, "subject"))
	case code.Cmp:
		for _, w := range []string{"rhs", "lhs"} {
			v, ok := sv.pop()
			if !ok {
				return "stack underflow popping " + w
			}
			switch v.(type) {
			case int, int64, float64, string:
			default:
				return fmt.Sprintf("cmp %s is %T", w, v)
			}
		}
		return opInt(-1, 2, "comparison")
	case code.Icmp:
		return seq(need(clsI, "rhs"), need(clsI, "lhs"), opInt(-1, 2, "comparison"))
	case code.Fcmp:
		return seq(need(clsF, "rhs"), need(clsF, "lhs"), opInt(-1, 2, "comparison"))
	case code.Scmp:
		return seq(need(clsS, "rhs"), need(clsS, "lhs"), opInt(-1, 2, "comparison"))
	case code.Jnm, code.Jm:
		v, ok := sv.pop()
		if !ok {
			return "stack underflow popping condition"
		}
		switch v.(type) {
		case bool, int64, int:
		default:
			return fmt.Sprintf("conditional jump on %T", v)
		}
		return opInt(0, in.NProg+1, "jump target")
	case code.Jmp:
		return opInt(0, in.NProg+1, "jump target")
	case code.Inc, code.Dec:
		if in.Instr.Operand != nil {
			if s := need(clsI, "delta"); s != "" {
				return s
			}
		}
		return datumOf("inc/dec", isInt)
	case code.Iset:
		return seq(need(clsI, "value"), datumOf("iset", func(d datum.Datum) bool { return isInt(d) || isBuckets(d) }))
	case code.Fset:
		return seq(need(clsF, "value"), datumOf("fset", func(d datum.Datum) bool { return isFloat(d) || isBuckets(d) }))
	case code.Sset:
		return seq(need(clsS, "value"), datumOf("sset", isStr))
	case code.Strptime:
		if s := need(clsS, "layout"); s != "" {
			return s
		}
		v, ok := sv.pop()
		if !ok {
			return "stack underflow popping time string"
		}
		switch x := v.(type) {
		case string:
			return ""
		case int:
			iv, ok := sv.pop()
			if !ok {
				return "stack underflow popping regexp index"
			}
			if !inCls(iv, clsI) {
				return fmt.Sprintf("strptime regexp index is %T", iv)
			}
			var re int
			switch y := iv.(type) {
			case int:
				re = y
			case int64:
				re = int(y)
			default:
				return ""
			}
			if m, ok := in.Matches[re]; !ok || x >= len(m) || x < 0 {
				return fmt.Sprintf("strptime of capture group %d of regexp %d which has %d submatches", x, re, len(in.Matches[re]))
			}
			return ""
		default:
			return fmt.Sprintf("strptime time operand is %T", v)
		}
	case code.Settime:
		return need(clsI, "timestamp")
	case code.Capref:
		v, ok := sv.pop()
		if !ok {
			return "stack underflow popping regexp index"
		}
		if _, isInt := v.(int); !isInt {
			return fmt.Sprintf("capref regexp index is %T", v)
		}
		if _, isInt := in.Instr.Operand.(int); !isInt {
			return fmt.Sprintf("capref operand is %T", in.Instr.Operand)
		}
		return ""
	case code.Str:
		return opInt(0, in.NStr, "string index")
	case code.Fadd, code.Fsub, code.Fmul, code.Fdiv, code.Fmod, code.Fpow:
		return seq(need(clsF, "rhs"), need(clsF, "lhs"))
	case code.Iadd, code.Isub, code.Imul, code.Idiv, code.Imod, code.Ipow, code.Shl, code.Shr, code.And, code.Or, code.Xor:
		return seq(need(clsI, "rhs"), need(clsI, "lhs"))
	case code.Neg:
		return need(clsI, "operand")
	case code.Not:
		v, ok := sv.pop()
		if !ok {
			return "stack underflow popping bool"
		}
		if _, isB := v.(bool); !isB {
			return fmt.Sprintf("not on %T", v)
		}
		return ""
	case code.Mload:
		return opInt(0, in.NMetrics, "metric index")
	case code.Dload:
		s, _ := metricAndKeys("dload")
		return s
	case code.Del:
		s, _ := metricAndKeys("del")
		return s
	case code.Expire:
		if s, _ := metricAndKeys("expire"); s != "" {
			return s
		}
		v, ok := sv.pop()
		if !ok {
			return "stack underflow popping duration"
		}
		if _, isD := v.(time.Duration); !isD {
			return fmt.Sprintf("expire duration is %T", v)
		}
		return ""
	case code.Iget:
		return datumOf("iget", isInt)
	case code.Fget:
		return datumOf("fget", isFloat)
	case code.Sget:
		return datumOf("sget", isStr)
	case code.Tolower, code.Length, code.S2f:
		return need(clsS, "operand")
	case code.S2i:
		if in.Instr.Operand != nil {
			if s := need(clsI, "base"); s != "" {
				return s
			}
		}
		return need(clsS, "operand")
	case code.I2f, code.I2s:
		return need(clsI, "operand")
	case code.F2s:
		return need(clsF, "operand")
	case code.Cat:
		return seq(need(clsS, "rhs"), need(clsS, "lhs"))
	case code.Subst:
		return seq(need(clsS, "val"), need(clsS, "new"), need(clsS, "old"))
	case code.Rsubst:
		v, ok := sv.pop()
		if !ok {
			return "stack underflow popping regexp index"
		}
		var idx int64
		switch y := v.(type) {
		case int:
			idx = int64(y)
		case int64:
			idx = y
		default:
			return fmt.Sprintf("rsubst regexp index is %T", v)
		}
		if idx < 0 || idx >= int64(len(in.Re)) {
			return fmt.Sprintf("rsubst regexp index %d out of range", idx)
		}
		return seq(need(clsS, "val"), need(clsS, "new"))
	case code.Setmatched:
		if _, ok := in.Instr.Operand.(bool); !ok {
			return fmt.Sprintf("setmatched operand is %T", in.Instr.Operand)
		}
		return ""
	}
	return fmt.Sprintf("bad or unknown opcode %d", in.Instr.Opcode)
}
