// C07 — timestamps follow strptime/settime and default to processing time.
// Monitor: Go's time package as the oracle (the language reference defines
// strptime by time.Parse), evaluated per line against timestamp() and the
// timestamps carried by the data updated on that line.
package c07

import (
	"fmt"
	"math"
	"runtime"
	"strings"
	"testing"
	"time"
	_ "time/tzdata"

	"github.com/google/mtail/internal/metrics"
	"github.com/google/mtail/internal/metrics/datum"
	"github.com/google/mtail/verif/ev"
	"github.com/google/mtail/verif/mt"
)

var layouts = []string{
	time.ANSIC, time.UnixDate, time.RFC822, time.RFC822Z, time.RFC850, time.RFC1123, time.RFC1123Z, time.RFC3339, time.RFC3339Nano, time.Kitchen,
	"Jan _2 15:04:05", "Jan 02 15:04:05", "Jan  2 15:04:05", "2006-01-02", "2006-02-01", "02/Jan/2006:15:04:05 -0700", "2006/01/02 15:04:05", "2006-01-02 15:04:05.000", "20060102150405", "15:04:05", "Jan _2 15:04:05 2006", "02/01/2006 15:04", "01/02/2006 15:04",
	// year-less layouts that carry their own zone (current-year option + explicit offset)
	"Jan _2 15:04:05 -0700", "Jan _2 15:04:05 MST", "02 Jan 15:04:05 -07:00", "Jan _2 15:04:05 Z07:00",
}

// layout pairs for which some text is valid under both with different meanings
var ambiguous = [][2]string{{"2006-01-02", "2006-02-01"}, {"02/01/2006 15:04", "01/02/2006 15:04"}, {"Jan _2 15:04:05", "Jan 02 15:04:05"}}

var locNames = []string{"", "UTC", "America/New_York", "Asia/Kolkata", "Pacific/Chatham"}

type lineSpec struct {
	Text   string `json:"line"`
	Kind   byte   `json:"kind"` // A B S N
	Value  string `json:"value,omitempty"`
	Layout string `json:"layout,omitempty"`
	N      int64  `json:"n,omitempty"`
}

type witness struct {
	Program     string     `json:"program"`
	Loc         string     `json:"override_timezone"`
	CurrentYear bool       `json:"syslog_use_current_year"`
	Lines       []lineSpec `json:"lines"`
	What        string     `json:"what"`
	Err         string     `json:"runtime_error,omitempty"`
}

func program(la, lb string) string {
	return fmt.Sprintf(`gauge ts
gauge g by k
/^A (.+)$/ {
  strptime($1, %q)
  ts = timestamp()
  g["a"] = 1
}
/^B (.+)$/ {
  strptime($1, %q)
  ts = timestamp()
  g["b"] = 1
}
/^S (-?\d+)$/ {
  settime($1)
  ts = timestamp()
  g["s"] = 1
}
/^N/ {
  ts = timestamp()
  g["n"] = 1
}
`, la, lb)
}

func oracle(layout, value string, loc *time.Location, curYear bool) (tm time.Time, alt time.Time, err error) {
	if loc != nil {
		tm, err = time.ParseInLocation(layout, value, loc)
	} else {
		tm, err = time.Parse(layout, value)
	}
	if err != nil {
		return
	}
	alt = tm
	if tm.Year() == 0 && curYear {
		now := time.Now()
		if loc != nil {
			now = now.In(loc)
		}
		base := tm
		tm = base.AddDate(now.Year(), 0, 0)
		// New-Year rollover between the VM's clock read and ours
		alt = base.AddDate(now.Add(-time.Minute).Year(), 0, 0)
	}
	return
}

func lv(m *metrics.Metric, keys ...string) *metrics.LabelValue {
	m.RLock()
	defer m.RUnlock()
	return m.FindLabelValueOrNil(keys)
}

func representable(t time.Time) bool { return t.Year() > 1700 && t.Year() < 2250 }

func TestC07(t *testing.T) {
	r := ev.Start(t, "C07", "exploration")
	defer r.Finish()
	r.Rule("(program, line sequence) cases: a two-layout program (layouts drawn from Go's reference layouts and syslog/apache variants, incl. pairs under which the same text means different instants), VM created with an override time zone from {none, UTC, New_York, Kolkata, Chatham} and the current-year option on/off; lines select layout A/B with rendered instants, ambiguous texts, invalid texts, repeats and >64 distinct values, settime(n) for boundary n, or no time statement. After every line timestamp() and the timestamps of the data written on that line are compared with time.Parse/ParseInLocation (or n, or the harness's clock bracket). Non-trivial: case contains >=2 successful parses under different layouts or a repeat of an earlier value; distinct by case text.")
	r.Assume("Go's time package is the oracle (Language.md defines strptime by time.Parse)", "datum timestamps are compared only for instants representable in int64 nanoseconds (years 1700-2250)", "with the current-year option the year read just before or just after the call is accepted", "settime(-62135596800) (the instant that means 'unset') is excluded as the statement says")
	n := ev.Pick(2500, 80000)
	rng := ev.NewRNG(ev.Seed(), "c07")
	var locs []*time.Location
	for _, ln := range locNames {
		if ln == "" {
			locs = append(locs, nil)
			continue
		}
		l, err := time.LoadLocation(ln)
		if err != nil {
			t.Fatalf("LoadLocation(%s): %v", ln, err)
		}
		locs = append(locs, l)
	}
	instants := []time.Time{
		time.Date(2021, 3, 4, 5, 6, 7, 0, time.UTC), time.Date(2019, 12, 31, 23, 59, 59, 0, time.UTC), time.Date(2020, 2, 29, 12, 0, 0, 0, time.UTC),
		time.Date(2021, 11, 7, 5, 30, 0, 0, time.UTC), // US DST fold
		time.Date(2021, 3, 14, 7, 30, 0, 0, time.UTC), // US DST gap
		time.Date(1999, 1, 2, 3, 4, 5, 123000000, time.UTC), time.Date(2038, 1, 19, 3, 14, 8, 0, time.UTC), time.Date(1970, 1, 1, 0, 0, 0, 0, time.UTC),
		time.Date(2021, 1, 2, 3, 4, 5, 0, time.UTC), time.Date(2021, 2, 1, 15, 4, 0, 0, time.UTC),
	}
	settimes := []int64{0, 1, -1, 1 << 31, 1 << 62, -62135596799, 1614834367, math.MaxInt32, 253402300799}
	ev.Parallel(n, runtime.GOMAXPROCS(0), func(i int) {
		g := rng.Sub(i)
		var la, lb string
		if g.Intn(3) == 0 {
			p := ev.PickOne(g, ambiguous)
			la, lb = p[0], p[1]
			if g.Bool() {
				la, lb = lb, la
			}
		} else {
			la, lb = ev.PickOne(g, layouts), ev.PickOne(g, layouts)
		}
		li := g.Intn(len(locs))
		loc := locs[li]
		curYear := g.Bool()
		src := program(la, lb)
		p, err := mt.Load(mt.UniqueName("c07p"), src, mt.VMOpts{CurrentYear: curYear, Loc: loc})
		if err != nil {
			r.Violation("layout-rejected", witness{Program: src, What: "program using Go reference layouts rejected: " + err.Error()})
			return
		}
		defer p.Close()
		mts, mg := p.Obj.Metrics[0], p.Obj.Metrics[1]
		nl := g.Range(4, 14)
		if i%50 == 0 {
			nl = 90 // cycle the 64-entry memo
		}
		var lines []lineSpec
		var pool []string
		distinctOK := map[string]bool{}
		repeat := false
		for k := 0; k < nl; k++ {
			var ls lineSpec
			switch c := g.Intn(12); {
			case c < 8:
				ls.Kind = "AB"[g.Intn(2)]
				ls.Layout = la
				if ls.Kind == 'B' {
					ls.Layout = lb
				}
				switch v := g.Intn(10); {
				case v < 5:
					in := ev.PickOne(g, instants)
					if nl == 90 {
						in = in.Add(time.Duration(k) * 37 * time.Hour)
					}
					rl := ls.Layout
					if g.Intn(4) == 0 { // render with the other layout: valid under it, maybe under this one too
						rl = map[byte]string{'A': lb, 'B': la}[ls.Kind]
					}
					zone := loc
					if zone == nil || g.Intn(3) == 0 {
						zone = time.UTC
					}
					ls.Value = in.In(zone).Format(rl)
				case v < 8 && len(pool) > 0:
					ls.Value = ev.PickOne(g, pool)
					repeat = true
				case v < 9:
					ls.Value = ev.PickOne(g, []string{"notatime", "2021-13-45", "Feb 30 10:00:00", "", " ", "99/99/9999 99:99", "2021-03-04T05:06:07", "Jan  2 15:04:05 extra"})
				default:
					ls.Value = ev.PickOne(g, []string{"2021-03-04", "03/04/2021 10:20", "Mar  4 05:06:07", "Mar 14 02:30:00", "Nov  7 01:30:00"})
				}
				pool = append(pool, ls.Value)
				ls.Text = string(ls.Kind) + " " + ls.Value
			case c < 10:
				ls.Kind = 'S'
				ls.N = ev.PickOne(g, settimes)
				ls.Text = fmt.Sprintf("S %d", ls.N)
			default:
				ls.Kind = 'N'
				ls.Text = "N"
			}
			lines = append(lines, ls)
		}
		bad := func(k int, class, what string) {
			r.Violation(class, witness{Program: src, Loc: locNames[li], CurrentYear: curYear, Lines: lines[:k+1], What: what, Err: p.VM.RuntimeErrorString()})
		}
		for k, ls := range lines {
			key := strings.ToLower(string(ls.Kind))
			prevTS := int64(-1)
			if l := lv(mts); l != nil {
				prevTS = datum.GetInt(l.Value)
			}
			t0 := time.Now()
			errd := p.Line("logfile", ls.Text)
			t1 := time.Now()
			r.Eval(1)
			var got int64 = -1
			tsLV := lv(mts)
			if tsLV != nil {
				got = datum.GetInt(tsLV.Value)
			}
			switch ls.Kind {
			case 'A', 'B':
				if ls.Value == "" || strings.TrimSpace(ls.Value) == "" && ls.Value != " " {
					continue // pattern (.+) does not match: nothing runs
				}
				tm, alt, perr := oracle(ls.Layout, ls.Value, loc, curYear)
				if perr != nil {
					if !errd {
						bad(k, "failed-parse-no-error", fmt.Sprintf("strptime(%q, %q) must fail (%v) but no runtime error was raised; timestamp()=%d", ls.Value, ls.Layout, perr, got))
						return
					}
					if got != prevTS {
						bad(k, "failed-parse-continued", "statements after a failed strptime were executed")
						return
					}
					r.Count("failed_parses", 1)
					continue
				}
				if tm.IsZero() {
					continue
				}
				if errd {
					bad(k, "valid-parse-errored", fmt.Sprintf("strptime(%q, %q) is valid (%v) but a runtime error was raised", ls.Value, ls.Layout, tm))
					return
				}
				if got != tm.Unix() && got != alt.Unix() {
					bad(k, "wrong-instant", fmt.Sprintf("after strptime(%q, %q) timestamp()=%d (%v) want %d (%v)", ls.Value, ls.Layout, got, time.Unix(got, 0).UTC(), tm.Unix(), tm.UTC()))
					return
				}
				distinctOK[ls.Layout+"|"+ls.Value] = true
				r.Count("successful_parses", 1)
				if representable(tm) {
					for _, l := range []*metrics.LabelValue{tsLV, lv(mg, key)} {
						if l == nil {
							bad(k, "datum-missing", "datum written on the line is missing")
							return
						}
						if d := l.Value.TimeUTC(); !d.Equal(tm) && !d.Equal(alt) {
							bad(k, "datum-wrong-instant", fmt.Sprintf("datum %q updated after strptime carries %v want %v", l.Labels, d.UTC(), tm.UTC()))
							return
						}
					}
					r.Count("datum_timestamps_checked", 2)
				}
			case 'S':
				if errd {
					bad(k, "settime-errored", "settime raised a runtime error")
					return
				}
				if got != ls.N {
					bad(k, "settime-wrong", fmt.Sprintf("after settime(%d) timestamp()=%d", ls.N, got))
					return
				}
				if want := time.Unix(ls.N, 0); representable(want) {
					for _, l := range []*metrics.LabelValue{tsLV, lv(mg, key)} {
						if l == nil || !l.Value.TimeUTC().Equal(want) {
							bad(k, "datum-wrong-instant", fmt.Sprintf("datum updated after settime(%d) carries %v", ls.N, l.Value.TimeUTC().UTC()))
							return
						}
					}
					r.Count("datum_timestamps_checked", 2)
				}
				r.Count("settimes", 1)
			case 'N':
				if errd {
					bad(k, "default-errored", "line without time statements raised a runtime error")
					return
				}
				if got < t0.Unix() || got > t1.Unix() {
					bad(k, "default-not-now", fmt.Sprintf("timestamp() without strptime/settime = %d, outside the call bracket [%d,%d]", got, t0.Unix(), t1.Unix()))
					return
				}
				for _, l := range []*metrics.LabelValue{tsLV, lv(mg, key)} {
					if l == nil {
						bad(k, "datum-missing", "datum written on the line is missing")
						return
					}
					if d := l.Value.TimeUTC(); d.Before(t0.Add(-time.Millisecond)) || d.After(t1.Add(time.Millisecond)) {
						bad(k, "default-datum-not-now", fmt.Sprintf("datum carries %v, outside the call bracket", d))
						return
					}
				}
				r.Count("default_time_lines", 1)
			}
		}
		lays := map[string]bool{}
		for k := range distinctOK {
			lays[strings.SplitN(k, "|", 2)[0]] = true
		}
		if len(lays) >= 2 || repeat {
			r.Distinct(fmt.Sprint(la, lb, locNames[li], curYear, lines))
			if i < 3 {
				r.Sample(map[string]any{"layout_a": la, "layout_b": lb, "loc": locNames[li], "current_year": curYear, "lines": lines})
			}
		}
		r.Count("loc_"+locNames[li], 1)
	})
	r.Floor("successful_parses", 1000)
	r.Floor("failed_parses", 200)
	if r.Violations() == 0 {
		longHistories(r, locs)
	}
}

// longHistories: one VM parses thousands of distinct timestamp texts (far more
// than any memo or cache inside the VM holds), in two layouts, and keeps coming
// back to texts it saw 1, 63, 64, 65, 128, 1023, 1024, 1025 … distinct texts
// ago, also under the other layout. Every line's timestamp() must equal Go's
// time.Parse of that line's own text with that line's own layout.
func longHistories(r *ev.Run, locs []*time.Location) {
	const la, lb = "2006-01-02 15:04:05", "02/01/2006 15:04:05"
	src := "gauge ts\ncounter n\n/^A (.+)$/ {\n  strptime($1, \"" + la + "\")\n  ts = timestamp()\n  n++\n}\n/^B (.+)$/ {\n  strptime($1, \"" + lb + "\")\n  ts = timestamp()\n  n++\n}\n"
	rng := ev.NewRNG(ev.Seed(), "c07-long")
	for h := 0; h < ev.Pick(4, 60); h++ {
		g := rng.Sub(h)
		loc := locs[h%len(locs)]
		p, err := mt.Load(mt.UniqueName("c07long"), src, mt.VMOpts{Loc: loc, CurrentYear: h%2 == 1})
		if err != nil {
			r.Violation("compile-rejected", map[string]any{"program": src, "what": err.Error()})
			return
		}
		var ts *metrics.Metric
		for _, m := range p.Obj.Metrics {
			if m.Name == "ts" {
				ts = m
			}
		}
		pl := loc
		if pl == nil {
			pl = time.UTC
		}
		base := time.Date(2001+h, 2, 3, 4, 5, 6, 0, time.UTC)
		var texts []string // distinct texts in order of first use
		n := ev.Pick(2600, 6000)
		step := time.Duration(g.Range(1, 5000)) * time.Second
		for i := 0; i < n; i++ {
			var text string
			back := []int{1, 2, 63, 64, 65, 66, 127, 128, 129, 1023, 1024, 1025, 2047, 2048, 2049}[g.Intn(15)]
			if i%5 == 4 && len(texts) > back {
				text = texts[len(texts)-back]
				r.Count("long_history_revisits", 1)
			} else {
				// day <= 12 so that the text is valid under both layouts
				tm := base.Add(time.Duration(len(texts)) * step)
				tm = time.Date(tm.Year(), time.Month(1+tm.Day()%12), 1+int(tm.Month())%12, tm.Hour(), tm.Minute(), tm.Second(), 0, time.UTC)
				text = tm.Format(la)
				if g.Intn(3) == 0 {
					text = tm.Format(lb)
				}
				texts = append(texts, text)
			}
			which, layout := "A", la
			if (text[2] == '/') != (g.Intn(6) == 0) { // mostly the matching layout, sometimes the other one
				which, layout = "B", lb
			}
			errd := p.Line("f", which+" "+text)
			want, perr := time.ParseInLocation(layout, text, pl)
			d, _ := ts.GetDatum()
			got := datum.GetInt(d)
			switch {
			case perr != nil && !errd:
				r.Violation("failed-parse-no-error", map[string]any{"history_length": i, "distinct_texts_before": len(texts), "line": which + " " + text, "layout": layout, "what": "time.Parse rejects the text under this layout but the VM raised no error"})
				p.Close()
				return
			case perr == nil && (errd || got != want.Unix()):
				r.Violation("wrong-instant-after-long-history", map[string]any{"history_length": i, "distinct_texts_before": len(texts), "line": which + " " + text, "layout": layout, "zone": fmt.Sprint(loc), "what": fmt.Sprintf("timestamp() = %d (runtime error: %v: %s), time.Parse gives %d", got, errd, p.VM.RuntimeErrorString(), want.Unix())})
				p.Close()
				return
			}
			r.Count("long_history_lines", 1)
		}
		p.Close()
		r.Eval(1)
		r.Distinct(fmt.Sprint("long", h))
	}
}
