// C15 — line framing is independent of how bytes arrive.
// Monitor: reference splitter vs the real LineReader driven over every
// chunking / buffer size / reader behaviour of every short byte string, plus
// long random streams through the default buffer size.
package c15

import (
	"context"
	"fmt"
	"io"
	"runtime"
	"strings"
	"testing"
	"time"

	"github.com/google/mtail/internal/logline"
	"github.com/google/mtail/internal/tailer/logstream"
	"github.com/google/mtail/verif/ev"
)

// reference: split at '\n', strip one trailing '\r' of terminated lines, then
// the unterminated remainder if non-empty.
func refSplit(s string) []string {
	var out []string
	for {
		i := strings.IndexByte(s, '\n')
		if i < 0 {
			break
		}
		l := s[:i]
		if strings.HasSuffix(l, "\r") {
			l = l[:len(l)-1]
		}
		out = append(out, l)
		s = s[i+1:]
	}
	if s != "" {
		out = append(out, s)
	}
	return out
}

// chunkReader hands out the stream in the given chunks (further limited by
// len(p)), optionally interleaving zero-byte reads, optionally returning
// io.EOF together with the final bytes.
type chunkReader struct {
	chunks   [][]byte
	zeroRead bool
	eofWith  bool
	zeroNext bool
	reads    int
}

func (c *chunkReader) Read(p []byte) (int, error) {
	c.reads++
	if len(c.chunks) == 0 {
		return 0, io.EOF
	}
	if c.zeroRead && c.zeroNext {
		c.zeroNext = false
		return 0, nil
	}
	c.zeroNext = true
	n := copy(p, c.chunks[0])
	if n == len(c.chunks[0]) {
		c.chunks = c.chunks[1:]
	} else {
		c.chunks[0] = c.chunks[0][n:]
	}
	if c.eofWith && len(c.chunks) == 0 {
		return n, io.EOF
	}
	return n, nil
}

func drive(stream string, cuts []int, bufSize int, behaviour int, lines chan *logline.LogLine) ([]string, int) {
	var chunks [][]byte
	prev := 0
	for _, c := range cuts {
		chunks = append(chunks, []byte(stream[prev:c]))
		prev = c
	}
	if prev < len(stream) || len(stream) == 0 {
		chunks = append(chunks, []byte(stream[prev:]))
	}
	cr := &chunkReader{chunks: chunks, zeroRead: behaviour == 1, eofWith: behaviour == 2}
	ctx := context.Background()
	lr := logstream.NewLineReader("src", lines, cr, bufSize, func() {})
	var got []string
	drain := func() {
		for {
			select {
			case l := <-lines:
				if l.Filename != "src" {
					got = append(got, "<<wrong filename "+l.Filename+">>")
				}
				got = append(got, l.Line)
			default:
				return
			}
		}
	}
	for i := 0; ; i++ {
		n, err := lr.ReadAndSend(ctx)
		drain()
		if n == 0 && err == io.EOF {
			break
		}
		if err != nil && err != io.EOF {
			got = append(got, "<<error "+err.Error()+">>")
			break
		}
		if i > 4*len(stream)+16 {
			got = append(got, "<<reader did not make progress>>")
			break
		}
	}
	lr.Finish(ctx)
	drain()
	return got, cr.reads
}

type witness struct {
	Stream    string   `json:"stream_quoted"`
	Cuts      []int    `json:"cut_offsets"`
	Buf       int      `json:"buffer_size"`
	Behaviour string   `json:"reader_behaviour"`
	Got       []string `json:"got_quoted"`
	Want      []string `json:"want_quoted"`
}

var behaviours = []string{"plain", "zero-byte reads interleaved", "final bytes returned together with io.EOF"}

func qs(x []string) []string {
	o := make([]string, len(x))
	for i, s := range x {
		if len(s) > 80 {
			s = s[:40] + "…" + s[len(s)-30:] + fmt.Sprintf("(len %d)", len(s))
		}
		o[i] = fmt.Sprintf("%q", s)
	}
	return o
}

func eq(a, b []string) bool {
	if len(a) != len(b) {
		return false
	}
	for i := range a {
		if a[i] != b[i] {
			return false
		}
	}
	return true
}

func class(got, want []string) string {
	switch {
	case len(got) < len(want):
		return "line-lost-or-merged"
	case len(got) > len(want):
		return "extra-or-split-line"
	}
	return "line-content-differs"
}

func TestC15(t *testing.T) {
	r := ev.Start(t, "C15", "exploration")
	defer r.Finish()
	alpha := []byte{'\n', '\r', 'a', 0xC3, 0xA9, 0x00}
	maxLen := ev.Pick(5, 6)
	bufs := []int{1, 2, 3, 5, 8, 64}
	r.Rule(fmt.Sprintf("exhaustive: every byte string of length <=%d over {LF, CR, 'a', 0xC3, 0xA9, NUL} x every chunking (2^(n-1) cut sets) x buffer sizes %v x 3 reader behaviours, each driven through the real LineReader (ReadAndSend until (0, EOF), then Finish) and compared with the reference splitter; then long random streams through the 128KiB default buffer. Non-trivial: stream contains a newline and the chunking has at least one cut; distinct by (stream, cuts, buffer, behaviour).", maxLen, bufs))
	r.Assume("the reader is driven the way the streams drive it: repeated ReadAndSend, Finish once when the source ends")

	tStart := time.Now()
	// enumerate strings
	var streams []string
	var rec func(p []byte)
	rec = func(p []byte) {
		streams = append(streams, string(p))
		if len(p) == maxLen {
			return
		}
		for _, a := range alpha {
			rec(append(append([]byte{}, p...), a))
		}
	}
	rec(nil)
	ev.Parallel(len(streams), runtime.GOMAXPROCS(0), func(si int) {
		s := streams[si]
		want := refSplit(s)
		lines := make(chan *logline.LogLine, len(s)+2)
		nontriv, evals := 0, 0
		ncuts := 1
		if len(s) > 1 {
			ncuts = 1 << (len(s) - 1)
		}
		for mask := 0; mask < ncuts; mask++ {
			var cuts []int
			for b := 0; b < len(s)-1; b++ {
				if mask&(1<<b) != 0 {
					cuts = append(cuts, b+1)
				}
			}
			for _, B := range bufs {
				for beh := 0; beh < 3; beh++ {
					got, _ := drive(s, cuts, B, beh, lines)
					evals++
					if !eq(got, want) {
						r.Violation(class(got, want), witness{fmt.Sprintf("%q", s), cuts, B, behaviours[beh], qs(got), qs(want)})
					}
					if len(cuts) > 0 && strings.Contains(s, "\n") {
						nontriv++
					}
				}
			}
		}
		r.Eval(evals)
		r.Count("exhaustive_runs", evals)
		r.Count("exhaustive_nontrivial_runs", nontriv)
		if nontriv > 0 {
			r.Distinct(s) // distinct streams; runs counted separately
		}
	})
	r.Set("exhaustive_streams", len(streams))
	r.Set("exhaustive_wall_s", time.Since(tStart).Seconds())
	r.Exhaustive(false)
	r.Set("exhaustive_part", fmt.Sprintf("complete for |stream|<=%d over the 6-byte alphabet, all chunkings, buffers %v, 3 reader behaviours", maxLen, bufs))
	r.Sample(map[string]any{"stream": "\"a\\r\\n\\xc3\\xa9\\n\\r\"", "cuts": []int{2, 4}, "buffer": 2, "behaviour": behaviours[2], "want": qs(refSplit("a\r\n\xc3\xa9\n\r"))})

	// long random streams through the default buffer
	rng := ev.NewRNG(ev.Seed(), "c15")
	n := ev.Pick(40, 1500)
	const def = 131072
	ev.Parallel(n, runtime.GOMAXPROCS(0), func(i int) {
		g := rng.Sub(i)
		total := g.Range(1, 1<<20)
		if i%4 == 0 {
			total = g.Range(def-3, 3*def+3)
		}
		var sb strings.Builder
		for sb.Len() < total {
			var ll int
			switch g.Intn(6) {
			case 0:
				ll = g.Range(def-2, def+2) // around the buffer size
			case 1:
				ll = g.Range(def, 3*def)
			case 2:
				ll = 0
			default:
				ll = g.Intn(300)
			}
			for j := 0; j < ll; j++ {
				sb.WriteByte("abcdefghij\r\xc3\xa9 \x00"[g.Intn(15)])
			}
			switch g.Intn(4) {
			case 0:
				sb.WriteString("\r\n")
			default:
				sb.WriteString("\n")
			}
		}
		s := sb.String()
		if g.Bool() {
			s = s[:len(s)-1-g.Intn(min(len(s)-1, 50))] // unterminated tail
		}
		var cuts []int
		pos := 0
		for pos < len(s) {
			var c int
			switch g.Intn(5) {
			case 0:
				c = def + g.Range(-1, 1)
			case 1:
				c = g.Range(1, 10)
			case 2:
				c = g.Range(1, 2*def)
			default:
				c = g.Range(1, 5000)
			}
			pos += c
			if pos < len(s) {
				cuts = append(cuts, pos)
			}
		}
		want := refSplit(s)
		lines := make(chan *logline.LogLine, len(want)+2)
		beh := g.Intn(3)
		B := def
		if g.Intn(4) == 0 {
			B = ev.PickOne(g, []int{4096, 65536, 100000})
			if len(s) < 1<<16 {
				B = ev.PickOne(g, []int{1, 7, 64})
			}
		}
		got, reads := drive(s, cuts, B, beh, lines)
		if !eq(got, want) {
			// find first difference
			k := 0
			for k < len(got) && k < len(want) && got[k] == want[k] {
				k++
			}
			lo, hiG, hiW := max(0, k-1), min(len(got), k+2), min(len(want), k+2)
			r.Violation("long-"+class(got, want), map[string]any{"seed_case": i, "stream_len": len(s), "buffer": B, "behaviour": behaviours[beh], "first_diff_index": k, "got_around": qs(got[lo:hiG]), "want_around": qs(want[lo:hiW]), "n_got": len(got), "n_want": len(want)})
		}
		r.Eval(1)
		r.Count("long_streams", 1)
		r.Count("long_stream_bytes", len(s))
		r.Count("long_stream_lines", len(want))
		r.Count("long_stream_reads", reads)
		r.Distinct(fmt.Sprintf("long-%d-%d", i, len(s)))
	})

	// generations: the file streams call Finish when a log is truncated and go
	// on reading with the same reader, and several readers are alive at once.
	// Reader A goes through 2-4 generations (Finish after each); reader B is
	// created after A's first Finish and interleaves its reads with A's. Each
	// reader's output must be the concatenation of the reference split of its
	// own generations, whatever the other one does.
	grng := ev.NewRNG(ev.Seed(), "c15-gen")
	ev.Parallel(ev.Pick(6000, 300000), runtime.GOMAXPROCS(0), func(i int) {
		g := grng.Sub(i)
		mk := func() string {
			n := g.Intn(12)
			if g.Intn(8) == 0 {
				n = g.Range(20, 300)
			}
			b := make([]byte, n)
			for k := range b {
				b[k] = "\n\n\raxyz\xc3\xa9 \x00"[g.Intn(11)]
			}
			return string(b)
		}
		bufSize := ev.PickOne(g, []int{1, 2, 3, 5, 8, 64, 4096})
		type rd struct {
			src   *genReader
			lr    *logstream.LineReader
			lines chan *logline.LogLine
			gens  []string
			gen   int
			got   []string
			want  []string
			name  string
		}
		ctx := context.Background()
		newRd := func(name string, ngen int) *rd {
			x := &rd{name: name, lines: make(chan *logline.LogLine, 4096)}
			for k := 0; k < ngen; k++ {
				x.gens = append(x.gens, mk())
				x.want = append(x.want, refSplit(x.gens[k])...)
			}
			x.src = &genReader{g: g}
			x.src.load(x.gens[0])
			x.lr = logstream.NewLineReader(name, x.lines, x.src, bufSize, func() {})
			return x
		}
		drain := func(x *rd) {
			for {
				select {
				case l := <-x.lines:
					if l.Filename != x.name {
						x.got = append(x.got, "<<wrong filename "+l.Filename+">>")
					}
					x.got = append(x.got, l.Line)
				default:
					return
				}
			}
		}
		// step advances a reader by one ReadAndSend, or finishes its generation
		// when the source is exhausted; false when the reader is done
		step := func(x *rd) bool {
			if x.gen >= len(x.gens) {
				return false
			}
			n, err := x.lr.ReadAndSend(ctx)
			drain(x)
			if n == 0 && err == io.EOF {
				x.lr.Finish(ctx)
				drain(x)
				x.gen++
				if x.gen < len(x.gens) {
					x.src.load(x.gens[x.gen])
				}
			}
			return true
		}
		a := newRd("A", g.Range(2, 4))
		var b *rd
		func() {
			defer func() {
				if p := recover(); p != nil {
					a.got = append(a.got, fmt.Sprintf("<<panic %v>>", p))
				}
			}()
			for steps := 0; steps < 100000; steps++ {
				if b == nil && a.gen >= 1 {
					b = newRd("B", g.Range(1, 2))
				}
				ra, rb := true, false
				if b != nil && g.Bool() {
					ra, rb = false, true
				}
				okA, okB := true, true
				if ra {
					okA = step(a)
					if !okA && b != nil {
						okB = step(b)
					}
				}
				if rb {
					okB = step(b)
					if !okB {
						okA = step(a)
					}
				}
				if !okA && (b == nil || !okB) {
					break
				}
			}
		}()
		r.Eval(1)
		r.Count("generation_runs", 1)
		for _, x := range []*rd{a, b} {
			if x == nil {
				continue
			}
			if !eq(x.got, x.want) {
				r.Violation("generations-"+class(x.got, x.want), map[string]any{"reader": x.name, "generations_quoted": qs(x.gens), "buffer": bufSize, "other_reader_generations_quoted": func() []string {
					if x == a && b != nil {
						return qs(b.gens)
					}
					return qs(a.gens)
				}(), "got": qs(x.got), "want": qs(x.want), "what": "reader " + x.name + " (Finish after each generation, then reused) delivered something else than the lines of its own generations"})
				return
			}
		}
		if b != nil {
			r.Distinct(fmt.Sprint("gen", i))
		}
	})
}

// genReader serves one generation of bytes at a time in random chunk sizes and
// reports (0, io.EOF) between generations.
type genReader struct {
	g    *ev.RNG
	data []byte
}

func (r *genReader) load(s string) { r.data = []byte(s) }

func (r *genReader) Read(p []byte) (int, error) {
	if len(r.data) == 0 {
		return 0, io.EOF
	}
	n := r.g.Range(1, 7)
	if n > len(r.data) {
		n = len(r.data)
	}
	if n > len(p) {
		n = len(p)
	}
	copy(p, r.data[:n])
	r.data = r.data[n:]
	return n, nil
}
