//go:build verif

// C24 — invalid programs are rejected with a positioned error.
// Oracle by construction: each mutation operator injects exactly one defect of
// a known class into a program the compiler accepts; the mutant must be
// rejected with at least one error positioned inside the source, and
// Runtime.CompileAndRun must neither start a VM for it nor forget to count a
// load error.
package c24

import (
	"fmt"
	"regexp"
	"runtime"
	"strconv"
	"strings"
	"sync"
	"sync/atomic"
	"testing"

	"github.com/google/mtail/internal/logline"
	"github.com/google/mtail/internal/metrics"
	mrt "github.com/google/mtail/internal/runtime"
	"github.com/google/mtail/internal/runtime/compiler"
	"github.com/google/mtail/internal/runtime/vm"
	"github.com/google/mtail/verif/ev"
	"github.com/google/mtail/verif/gen"
	"github.com/google/mtail/verif/mt"
)

type mutant struct {
	class string
	site  string
	src   string
	opts  []compiler.Option
}

func insertAt(ss *[]gen.Stmt, pos int, s gen.Stmt) func() {
	old := *ss
	n := append(append(append([]gen.Stmt{}, old[:pos]...), s), old[pos:]...)
	*ss = n
	return func() { *ss = old }
}

// mutants enumerates every (operator, site) of p.
func mutants(p *gen.Program, render func() string) []mutant {
	var out []mutant
	add := func(class, site string, opts ...compiler.Option) {
		out = append(out, mutant{class, site, render(), opts})
	}
	blocks := gen.Blocks(p)
	pats := gen.Patterns(p)
	for bi, b := range blocks {
		for _, pos := range []int{0, len(*b.Stmts)} {
			site := fmt.Sprintf("%s-block#%d@%d", b.Kind, bi, pos)
			stmts := []struct {
				class string
				s     gen.Stmt
				skip  bool
			}{
				{"undeclared-metric", &gen.RawStmt{Text: "zz_undeclared++"}, false},
				{"undeclared-metric", &gen.RawStmt{Text: "zz_undeclared[\"k\"] = 1"}, pos != 0},
				{"capture-index-too-large", &gen.Cond{C: &gen.Raw{Text: "$9 == \"x\""}}, false},
				{"capture-unknown-name", &gen.Cond{C: &gen.Raw{Text: "$nosuchgroup == \"x\""}}, false},
				{"undefined-decorator", &gen.RawStmt{Text: "@nosuchdeco {\n}"}, false},
				{"next-outside-decorator", &gen.Next{}, b.InDef},
				{"unused-declaration", &gen.RawStmt{Text: "counter zz_unused_nested"}, false},
				{"redeclared-name", &gen.RawStmt{Text: "counter zz_twice\ncounter zz_twice\nzz_twice++"}, b.InDef || pos != 0},
				{"int-div-by-literal-zero", &gen.Cond{C: &gen.Raw{Text: "3 / 0 > 1"}}, false},
				// a defect inside an operand whose value cannot matter
				{"undeclared-metric", &gen.Cond{C: &gen.Raw{Text: "zz_undeclared * 0 == 0"}}, pos != 0},
				{"undeclared-metric", &gen.Cond{C: &gen.Raw{Text: "0 * zz_undeclared == 0"}}, pos != 0},
				{"undeclared-metric", &gen.Cond{C: &gen.Raw{Text: "zz_undeclared ** 0 == 1"}}, pos != 0},
				{"capture-index-too-large", &gen.Cond{C: &gen.Raw{Text: "$9 * 0 == 0"}}, pos != 0},
				{"int-div-by-literal-zero", &gen.Cond{C: &gen.Raw{Text: "(3 / 0) * 0 == 0"}}, pos != 0},
				{"int-div-by-literal-zero", &gen.Cond{C: &gen.Raw{Text: "2 > 1 || 3 / 0 > 1"}}, pos != 0},
				{"int-mod-by-literal-zero", &gen.Cond{C: &gen.Raw{Text: "7 % 0 == 1"}}, pos != 0},
			}
			for _, st := range stmts {
				if st.skip {
					continue
				}
				undo := insertAt(b.Stmts, pos, st.s)
				add(st.class, site)
				undo()
			}
			// capture of a sibling (not enclosing) pattern
			for _, pt := range pats {
				if b.Visible[pt] {
					continue
				}
				done := false
				for _, g := range pt.Groups {
					if g.Name != "" && !done {
						// the name must not be declared by any visible pattern either
						clash := false
						for v := range b.Visible {
							for _, vg := range v.Groups {
								if vg.Name == g.Name {
									clash = true
								}
							}
						}
						if clash {
							continue
						}
						undo := insertAt(b.Stmts, pos, &gen.Cond{C: &gen.Raw{Text: "$" + g.Name + " == \"x\""}})
						add("capture-of-sibling-pattern", site)
						undo()
						done = true
					}
				}
			}
		}
		// division by literal zero inside existing Int assignments
		for si, s := range *b.Stmts {
			if a, ok := s.(*gen.Assign); ok && a.M.Type == gen.TInt && a.M.Kind != "histogram" && a.Op == "=" {
				oldE := a.E
				a.E = &gen.Bin{Op: []string{"/", "%"}[si%2], L: oldE, R: &gen.IntLit{V: 0}, T: gen.TInt}
				add("int-div-by-literal-zero", fmt.Sprintf("%s-block#%d-assign#%d", b.Kind, bi, si))
				a.E = oldE
			}
		}
	}
	// wrong number of index keys
	for ui, u := range gen.MetricUses(p) {
		old := *u
		*u = append(append([]gen.Expr{}, old...), &gen.StrLit{S: "extra"})
		add("too-many-index-keys", fmt.Sprintf("use#%d", ui))
		if len(old) >= 2 {
			*u = old[:len(old)-1]
			add("too-few-index-keys", fmt.Sprintf("use#%d", ui))
		}
		*u = old
	}
	// redeclared / unused declarations
	oldM := p.Metrics
	for mi, m := range oldM {
		dup := *m
		p.Metrics = append(append([]*gen.Metric{}, oldM...), &dup)
		add("redeclared-name", fmt.Sprintf("metric#%d-at-end", mi))
		if mi == 0 {
			p.Metrics = append([]*gen.Metric{&dup}, oldM...)
			add("redeclared-name", "metric#0-at-start")
		}
	}
	for _, kind := range []string{"counter", "gauge", "text", "histogram"} {
		un := &gen.Metric{Name: "zz_unused", Kind: kind}
		if kind == "histogram" {
			un.Buckets = []float64{1, 2}
		}
		p.Metrics = append(append([]*gen.Metric{}, oldM...), un)
		add("unused-declaration", kind)
	}
	dim := &gen.Metric{Name: "zz_unused", Kind: "counter", Keys: []string{"k"}, Hidden: true}
	p.Metrics = append([]*gen.Metric{dim}, oldM...)
	add("unused-declaration", "hidden-dimensioned-first")
	p.Metrics = oldM
	// invalid / over-long regular expressions
	for pi, pt := range pats {
		oldParts := pt.Parts
		for _, bad := range []string{"a(b", "[z-a]", "a**", "(?P<x", "\\8"} {
			pt.Parts = []gen.PatPart{{Lit: bad}}
			add("invalid-regex", fmt.Sprintf("pattern#%d %s", pi, bad))
		}
		hasConst := false
		for _, pp := range oldParts {
			if pp.Const != "" {
				hasConst = true
			}
		}
		if !hasConst {
			pad := func(n int) string {
				s := pt.Regex
				for len(s) <= n {
					s += "b?"
				}
				return s
			}
			pt.Parts = []gen.PatPart{{Lit: pad(1024)}}
			add("regex-too-long", fmt.Sprintf("pattern#%d default-limit", pi))
			// over the limit in bytes, under it in characters
			mb := pt.Regex
			for len(mb) <= 1024 {
				mb += "é?"
			}
			pt.Parts = []gen.PatPart{{Lit: mb}}
			add("regex-too-long", fmt.Sprintf("pattern#%d default-limit, multi-byte characters", pi))
			for _, lim := range []int{len(pt.Regex) + 3, 200} {
				pt.Parts = []gen.PatPart{{Lit: pad(lim)}}
				add("regex-too-long", fmt.Sprintf("pattern#%d limit=%d", pi, lim), compiler.MaxRegexpLength(lim))
			}
		}
		// over the limit only as a whole: every piece is within the limit and
		// the piece that tips the total over comes last and is not a literal
		if !hasConst {
			oldC := p.Consts
			half := pt.Regex
			for len(half) <= 600 {
				half += "b?"
			}
			tail := strings.Repeat("c?", 300)
			p.Consts = append(append([]*gen.ConstDef{}, oldC...), &gen.ConstDef{Name: "ZZTAIL", Regex: tail})
			pt.Parts = []gen.PatPart{{Lit: half}, {Const: "ZZTAIL"}}
			add("regex-too-long", fmt.Sprintf("pattern#%d literal + const, default-limit", pi))
			p.Consts = append(append([]*gen.ConstDef{}, oldC...), &gen.ConstDef{Name: "ZZHEAD", Regex: half}, &gen.ConstDef{Name: "ZZTAIL", Regex: tail})
			pt.Parts = []gen.PatPart{{Lit: "^"}, {Const: "ZZHEAD"}, {Const: "ZZTAIL"}}
			add("regex-too-long", fmt.Sprintf("pattern#%d short literal + const + const, default-limit", pi))
			p.Consts = oldC
		}
		pt.Parts = oldParts
	}
	return out
}

var posRe = regexp.MustCompile(`^([^:\s]+):(\d+):(\d+)(?:-(\d+))?: `)

// positioned reports whether some error line of msg carries a position inside src.
func positioned(name, src, msg string) (bool, string) {
	lines := strings.Split(src, "\n")
	var seen []string
	for _, l := range strings.Split(msg, "\n") {
		m := posRe.FindStringSubmatch(l)
		if m == nil || m[1] != name {
			continue
		}
		ln, _ := strconv.Atoi(m[2])
		col, _ := strconv.Atoi(m[3])
		seen = append(seen, m[2]+":"+m[3])
		if ln >= 1 && ln <= len(lines) && col >= 1 && col <= len(lines[ln-1])+1 {
			return true, ""
		}
	}
	return false, strings.Join(seen, ",")
}

var vmLines sync.Map // vm name -> *int64

func TestC24(t *testing.T) {
	r := ev.Start(t, "C24", "exploration")
	defer r.Finish()
	h := func(id uint64, name string, l *logline.LogLine, phase int) {
		if phase == 0 {
			c, _ := vmLines.LoadOrStore(name, new(int64))
			atomic.AddInt64(c.(*int64), 1)
		}
	}
	vm.VerifLineHook.Store(&h)
	defer vm.VerifLineHook.Store(nil)
	r.Rule("base programs from the typed generator (each first checked to compile); every defect-introducing operator {undeclared metric, $k beyond the groups, unknown $name, capture of a sibling pattern, undefined decorator, next outside a decorator, one index key too many / too few, redeclared name, unused declaration (4 kinds + hidden dimensioned), 5 invalid regexes, regex over the default and two custom length limits, integer / and % by literal 0} applied at every eligible site (start and end of every block incl. else/otherwise/decorated/decorator bodies, every use of a dimensioned metric, every pattern, every Int assignment). Each mutant must be rejected with an error positioned inside the source; a sample goes through Runtime.CompileAndRun (no VM may process a line, load error counted). Non-trivial: every mutant; distinct by mutant text.")
	r.Assume("the defect class is guaranteed by construction of the operator, not inferred")
	n := ev.Pick(120, 4000)
	rng := ev.NewRNG(ev.Seed(), "c24")
	var rtMu sync.Mutex // Runtime checks are serialised (global expvar maps)
	ev.Parallel(n, runtime.GOMAXPROCS(0), func(i int) {
		g := rng.Sub(i)
		p := gen.Generate(g, gen.Opts{ElseOtherwise: true, Strptime: i%3 == 0, MaxStmts: g.Range(3, 14)})
		rd := &gen.Renderer{IndexStyle: g.Intn(2)}
		render := func() string { return rd.Render(p) }
		base := render()
		if _, err := mt.Compile(mt.UniqueName("c24b"), base); err != nil {
			r.Count("base_rejected", 1)
			return
		}
		r.Count("base_programs", 1)
		for mi, m := range mutants(p, render) {
			name := fmt.Sprintf("c24m%d_%d.mtail", i, mi)
			obj, err := mt.Compile(name, m.src, m.opts...)
			r.Eval(1)
			r.Count("mutants_"+m.class, 1)
			r.Distinct(m.src + m.site)
			w := map[string]any{"defect_class": m.class, "site": m.site, "program": m.src}
			if err == nil {
				_ = obj
				r.Violation("accepted-"+m.class, w)
				continue
			}
			if ok, seen := positioned(name, m.src, err.Error()); !ok {
				w["errors"] = err.Error()
				w["positions_seen"] = seen
				r.Violation("unpositioned-"+m.class, w)
				continue
			}
			if (mi+i)%23 == 0 && len(m.opts) == 0 {
				rtMu.Lock()
				bad := runtimeCheck(name, m.src, base)
				rtMu.Unlock()
				r.Count("runtime_load_checks", 1)
				if bad != "" {
					w["what"] = bad
					r.Violation("loaded-"+m.class, w)
				}
			}
			if i == 0 && mi%17 == 0 {
				r.Sample(map[string]any{"defect_class": m.class, "site": m.site, "error": strings.SplitN(err.Error(), "\n", 2)[0]})
			}
		}
	})
	for _, c := range []string{"undeclared-metric", "capture-index-too-large", "capture-unknown-name", "capture-of-sibling-pattern", "undefined-decorator", "next-outside-decorator", "too-many-index-keys", "too-few-index-keys", "redeclared-name", "unused-declaration", "invalid-regex", "regex-too-long", "int-div-by-literal-zero", "int-mod-by-literal-zero"} {
		r.Floor("mutants_"+c, 20)
	}
}

func loadErrs(name string) int64 {
	v := mrt.ProgLoadErrors.Get(name)
	if v == nil {
		return 0
	}
	n, _ := strconv.ParseInt(v.String(), 10, 64)
	return n
}

// runtimeCheck puts the defective program through the real Runtime in a short
// history: defective, the same bytes again, the valid base program, the
// defective bytes once more. Every defective submission must be refused and
// counted, never run; the base program, once loaded, keeps running.
func runtimeCheck(name, src, base string) string {
	lines := make(chan *logline.LogLine)
	var wg sync.WaitGroup
	rt, err := mrt.New(lines, &wg, "", metrics.NewStore())
	if err != nil {
		return "runtime.New: " + err.Error()
	}
	defer mrt.ProgLoadErrors.Delete(name)
	defer mrt.ProgLoads.Delete(name)
	defer vmLines.Delete(name)
	before := loadErrs(name)
	feed := func() {
		lines <- logline.New(nil, "f", "a=1 b=foo c=1.5 d=2 e=x f=0.5 t=2021-03-04")
		lines <- logline.New(nil, "f", "barrier")
		lines <- logline.New(nil, "f", "barrier")
	}
	processed := func() int64 {
		if c, ok := vmLines.Load(name); ok {
			return atomic.LoadInt64(c.(*int64))
		}
		return 0
	}
	what := ""
	refused := 0
	for step, sub := range []struct {
		text   string
		broken bool
	}{{src, true}, {src, true}, {base, false}, {src, true}} {
		cerr := rt.CompileAndRun(name, strings.NewReader(sub.text))
		feed()
		switch {
		case sub.broken && cerr == nil:
			what = fmt.Sprintf("submission %d (the defective program%s) was accepted: CompileAndRun returned no error", step+1, map[int]string{1: ", same bytes as just refused", 3: ", same bytes as refused before the valid version was loaded"}[step])
		case !sub.broken && cerr != nil:
			what = "the valid base program was refused after the defective one: " + cerr.Error()
		}
		if what != "" {
			break
		}
		if sub.broken {
			refused++
		}
		if step < 2 && processed() > 0 {
			what = "a VM for the rejected program processed a line"
			break
		}
		if loadErrs(name) != before+int64(refused) {
			what = fmt.Sprintf("prog_load_errors_total[%s] moved by %d after %d refused submissions", name, loadErrs(name)-before, refused)
			break
		}
	}
	close(lines)
	wg.Wait()
	// everything fed has been processed now: 3 lines after the valid version
	// was loaded and 3 after the last refused submission
	// (the last line fed before the valid version was loaded may still have been
	// in the loader's hand and reach it too: 6 or 7)
	if n := processed(); what == "" && (n < 6 || n > 7) {
		what = fmt.Sprintf("the valid version, loaded before the last refused submission, processed %d of the 6 lines fed since it was loaded", n)
	}
	return what
}
