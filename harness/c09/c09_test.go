// C09 — a metric behaves as an insertion-ordered map from label tuples to
// (value, timestamp, expiry). Monitor: executable sequential reference model
// compared with the real Metric after every operation.
package c09

import (
	"encoding/json"
	"fmt"
	"math"
	"reflect"
	"runtime"
	"strings"
	"testing"
	"time"

	"github.com/google/mtail/internal/metrics"
	"github.com/google/mtail/internal/metrics/datum"
	"github.com/google/mtail/verif/ev"
)

type entry struct {
	labels []string
	val    string // canonical rendering of the value
	ts     int64
	expiry time.Duration
	// histogram state
	buckets []uint64
	count   uint64
	sum     float64
	i       int64
	f       float64
	s       string
}

type model struct {
	arity   int
	typ     metrics.Type
	bounds  []float64 // upper bounds, incl +Inf
	entries []*entry
}

func (m *model) find(t []string) int {
	for i, e := range m.entries {
		if reflect.DeepEqual(e.labels, t) {
			return i
		}
	}
	return -1
}

type op struct {
	Kind  string   `json:"op"` // get set inc dec observe remove expire badget badremove badexpire
	Tuple []string `json:"tuple"`
	I     int64    `json:"i,omitempty"`
	F     float64  `json:"f,omitempty"`
	S     string   `json:"s,omitempty"`
	TS    int64    `json:"ts,omitempty"`
	D     int64    `json:"dur,omitempty"`
}

type metricSpec struct {
	kind  metrics.Kind
	typ   metrics.Type
	arity int
}

func (s metricSpec) String() string { return fmt.Sprintf("%v/%v/arity%d", s.kind, s.typ, s.arity) }

var specs = func() []metricSpec {
	var out []metricSpec
	for arity := 0; arity <= 2; arity++ {
		for _, k := range []metrics.Kind{metrics.Counter, metrics.Gauge, metrics.Timer} {
			out = append(out, metricSpec{k, metrics.Int, arity}, metricSpec{k, metrics.Float, arity})
		}
		out = append(out, metricSpec{metrics.Text, metrics.String, arity}, metricSpec{metrics.Histogram, metrics.Buckets, arity},
			metricSpec{metrics.Gauge, metrics.String, arity})
	}
	return out
}()

func newReal(s metricSpec) *metrics.Metric {
	keys := make([]string, s.arity)
	for i := range keys {
		keys[i] = fmt.Sprintf("k%d", i)
	}
	m := metrics.NewMetric("m", "prog", s.kind, s.typ, keys...)
	if s.typ == metrics.Buckets {
		m.Buckets = []datum.Range{{Min: 0, Max: 1}, {Min: 1, Max: 2}, {Min: 2, Max: 4}}
	}
	return m
}

func newModel(s metricSpec) *model {
	m := &model{arity: s.arity, typ: s.typ}
	if s.typ == metrics.Buckets {
		m.bounds = []float64{1, 2, 4, math.Inf(1)}
	}
	return m
}

// apply runs o on both sides; returns a description of the first disagreement.
func apply(st *metrics.Store, real *metrics.Metric, mod *model, o op) string {
	wrongArity := len(o.Tuple) != mod.arity
	switch o.Kind {
	case "get", "set", "inc", "dec", "observe":
		d, err := real.GetDatum(o.Tuple...)
		if wrongArity {
			if err == nil {
				return "GetDatum with wrong arity succeeded"
			}
			return ""
		}
		if err != nil {
			return "GetDatum failed: " + err.Error()
		}
		i := mod.find(o.Tuple)
		if i < 0 {
			e := &entry{labels: append([]string{}, o.Tuple...)}
			if mod.typ == metrics.Buckets {
				e.buckets = make([]uint64, len(mod.bounds))
			}
			// a new datum is stamped with the creation time; the reference
			// does not pin that instant, so it is learnt from the real side
			e.ts = d.TimeUTC().UnixNano()
			mod.entries = append(mod.entries, e)
			i = len(mod.entries) - 1
		}
		e := mod.entries[i]
		ts := time.Unix(0, o.TS)
		switch o.Kind {
		case "set":
			switch mod.typ {
			case metrics.Int:
				datum.SetInt(d, o.I, ts)
				e.i = o.I
			case metrics.Float:
				datum.SetFloat(d, o.F, ts)
				e.f = o.F
			case metrics.String:
				datum.SetString(d, o.S, ts)
				e.s = o.S
			}
			e.ts = o.TS
		case "inc":
			datum.IncIntBy(d, o.I, ts)
			e.i += o.I
			e.ts = o.TS
		case "dec":
			datum.DecIntBy(d, o.I, ts)
			e.i -= o.I
			e.ts = o.TS
		case "observe":
			datum.Observe(d, o.F, ts)
			for bi, b := range mod.bounds {
				if o.F <= b {
					e.buckets[bi]++
					break
				}
			}
			e.count++
			e.sum += o.F
			e.ts = o.TS
		}
	case "remove":
		err := real.RemoveDatum(o.Tuple...)
		if wrongArity {
			if err == nil {
				return "RemoveDatum with wrong arity succeeded"
			}
			return ""
		}
		if err != nil {
			return "RemoveDatum failed: " + err.Error()
		}
		if i := mod.find(o.Tuple); i >= 0 {
			mod.entries = append(mod.entries[:i:i], mod.entries[i+1:]...)
		}
	case "gc":
		// Store.Gc: drops every tuple whose expiry mark is older than its
		// timestamp allows. Only the instants just before and after the call are
		// known, so a tuple that becomes due in between may go either way.
		before := time.Now()
		if err := st.Gc(); err != nil {
			return "Store.Gc failed: " + err.Error()
		}
		after := time.Now()
		kept := mod.entries[:0:0]
		for _, e := range mod.entries {
			ts := time.Unix(0, e.ts)
			switch {
			case e.expiry <= 0 || after.Sub(ts) <= e.expiry:
				kept = append(kept, e) // certainly not due
			case before.Sub(ts) > e.expiry:
				// certainly due: dropped
			default:
				if real.FindLabelValueOrNil(e.labels) != nil { // became due during the call
					kept = append(kept, e)
				}
			}
		}
		mod.entries = kept
	case "remove-oldest":
		// the limit-enforcement path of GC: drops the live tuple with the
		// earliest timestamp (the first such in enumeration order)
		real.RemoveOldestDatum()
		oi := -1
		for i, e := range mod.entries {
			if oi < 0 || e.ts < mod.entries[oi].ts {
				oi = i
			}
		}
		if oi >= 0 {
			mod.entries = append(mod.entries[:oi:oi], mod.entries[oi+1:]...)
		}
	case "expire":
		err := real.ExpireDatum(time.Duration(o.D), o.Tuple...)
		if wrongArity {
			if err == nil {
				return "ExpireDatum with wrong arity succeeded"
			}
			return ""
		}
		i := mod.find(o.Tuple)
		if i < 0 {
			if err == nil {
				return "ExpireDatum on an absent tuple returned no error"
			}
			return ""
		}
		if err != nil {
			return "ExpireDatum on a present tuple failed: " + err.Error()
		}
		mod.entries[i].expiry = time.Duration(o.D)
	}
	return ""
}

func feq(a, b float64) bool { return a == b || (math.IsNaN(a) && math.IsNaN(b)) }

func datumEq(typ metrics.Type, d datum.Datum, e *entry, bounds []float64) string {
	if d.TimeUTC().UnixNano() != e.ts {
		return fmt.Sprintf("timestamp %d want %d", d.TimeUTC().UnixNano(), e.ts)
	}
	switch typ {
	case metrics.Int:
		if v := datum.GetInt(d); v != e.i {
			return fmt.Sprintf("int value %d want %d", v, e.i)
		}
	case metrics.Float:
		if v := datum.GetFloat(d); !feq(v, e.f) {
			return fmt.Sprintf("float value %v want %v", v, e.f)
		}
	case metrics.String:
		if v := datum.GetString(d); v != e.s {
			return fmt.Sprintf("string value %q want %q", v, e.s)
		}
	case metrics.Buckets:
		b := datum.GetBuckets(d)
		if b.GetCount() != e.count || !feq(b.GetSum(), e.sum) {
			return fmt.Sprintf("histogram count/sum %d/%v want %d/%v", b.GetCount(), b.GetSum(), e.count, e.sum)
		}
		got := b.GetBuckets()
		for i, ub := range bounds {
			found := false
			for r, c := range got {
				if r.Max == ub {
					found = true
					if c != e.buckets[i] {
						return fmt.Sprintf("bucket le=%v count %d want %d", ub, c, e.buckets[i])
					}
				}
			}
			if !found {
				return fmt.Sprintf("bucket le=%v missing", ub)
			}
		}
	}
	return ""
}

// compare checks every observable of the real metric against the model.
func compare(real *metrics.Metric, mod *model, universe [][]string, deep bool) string {
	if len(real.LabelValues) != len(mod.entries) {
		return fmt.Sprintf("%d label values stored, model has %d", len(real.LabelValues), len(mod.entries))
	}
	for i, lv := range real.LabelValues {
		e := mod.entries[i]
		if !reflect.DeepEqual(append([]string{}, lv.Labels...), e.labels) && !(len(lv.Labels) == 0 && len(e.labels) == 0) {
			return fmt.Sprintf("position %d holds labels %q, model %q", i, lv.Labels, e.labels)
		}
		if lv.Expiry != e.expiry {
			return fmt.Sprintf("position %d %q expiry %v want %v", i, lv.Labels, lv.Expiry, e.expiry)
		}
		if s := datumEq(mod.typ, lv.Value, e, mod.bounds); s != "" {
			return fmt.Sprintf("position %d %q: %s", i, lv.Labels, s)
		}
	}
	for _, t := range universe {
		if len(t) != mod.arity {
			continue
		}
		lv := real.FindLabelValueOrNil(t)
		i := mod.find(t)
		if (lv == nil) != (i < 0) {
			return fmt.Sprintf("FindLabelValueOrNil(%q) present=%v, model present=%v", t, lv != nil, i >= 0)
		}
		if lv != nil && lv != real.LabelValues[i] {
			return fmt.Sprintf("index and slice disagree for %q", t)
		}
	}
	// enumeration
	c := make(chan *metrics.LabelSet)
	go real.EmitLabelSets(c)
	n := 0
	var bad string
	for ls := range c {
		if bad != "" {
			continue
		}
		if n >= len(mod.entries) {
			bad = "EmitLabelSets lists more label sets than the model holds"
			continue
		}
		e := mod.entries[n]
		if len(ls.Labels) != len(e.labels) {
			bad = fmt.Sprintf("emitted label set %d has %d labels want %d", n, len(ls.Labels), len(e.labels))
		}
		for ki, k := range real.Keys {
			if bad == "" && ls.Labels[k] != e.labels[ki] {
				bad = fmt.Sprintf("emitted label set %d: %s=%q want %q", n, k, ls.Labels[k], e.labels[ki])
			}
		}
		if bad == "" {
			if s := datumEq(mod.typ, ls.Datum, e, mod.bounds); s != "" {
				bad = fmt.Sprintf("emitted label set %d: %s", n, s)
			}
		}
		n++
	}
	if bad != "" {
		return bad
	}
	if n != len(mod.entries) {
		return fmt.Sprintf("EmitLabelSets listed %d label sets want %d", n, len(mod.entries))
	}
	if !deep {
		return ""
	}
	// JSON marshalling
	real.RLock()
	b, err := json.Marshal(real)
	real.RUnlock()
	if err != nil {
		for _, e := range mod.entries {
			if math.IsNaN(e.f) || math.IsInf(e.f, 0) || math.IsNaN(e.sum) || math.IsInf(e.sum, 0) {
				return "" // non-finite floats: C22's subject
			}
		}
		return "json.Marshal failed: " + err.Error()
	}
	var g struct {
		Name, Program string
		Keys          []string
		LabelValues   []struct {
			Labels []string
			Value  map[string]any
			Expiry int64
		}
	}
	dec := json.NewDecoder(strings.NewReader(string(b)))
	dec.UseNumber()
	if err := dec.Decode(&g); err != nil {
		return "json decode: " + err.Error()
	}
	if len(g.LabelValues) != len(mod.entries) {
		return fmt.Sprintf("JSON lists %d label values want %d", len(g.LabelValues), len(mod.entries))
	}
	for i, lv := range g.LabelValues {
		e := mod.entries[i]
		if len(lv.Labels) != len(e.labels) {
			return fmt.Sprintf("JSON label value %d labels %q want %q", i, lv.Labels, e.labels)
		}
		for j := range lv.Labels {
			if lv.Labels[j] != e.labels[j] {
				return fmt.Sprintf("JSON label value %d labels %q want %q", i, lv.Labels, e.labels)
			}
		}
		if lv.Expiry != int64(e.expiry) {
			return fmt.Sprintf("JSON label value %d expiry %d want %d", i, lv.Expiry, e.expiry)
		}
		if tn, _ := lv.Value["Time"].(json.Number); tn.String() != fmt.Sprint(e.ts) {
			return fmt.Sprintf("JSON label value %d time %v want %d", i, lv.Value["Time"], e.ts)
		}
		switch mod.typ {
		case metrics.Int:
			if v, _ := lv.Value["Value"].(json.Number); v.String() != fmt.Sprint(e.i) {
				return fmt.Sprintf("JSON label value %d value %v want %d", i, lv.Value["Value"], e.i)
			}
		case metrics.Float:
			v, _ := lv.Value["Value"].(json.Number)
			fv, _ := v.Float64()
			if fv != e.f {
				return fmt.Sprintf("JSON label value %d value %v want %v", i, v, e.f)
			}
		case metrics.String:
			if v, _ := lv.Value["Value"].(string); v != e.s {
				return fmt.Sprintf("JSON label value %d value %q want %q", i, v, e.s)
			}
		case metrics.Buckets:
			if v, _ := lv.Value["Count"].(json.Number); v.String() != fmt.Sprint(e.count) {
				return fmt.Sprintf("JSON label value %d count %v want %d", i, v, e.count)
			}
		}
	}
	return ""
}

var universe = [][]string{{}, {"a"}, {"b"}, {"ab"}, {"a", "b"}, {"b", "a"}, {"a", "a"}, {"", "ab"}, {"ab", ""}, {"a", "b", "c"}, {""}}

func tuplesOf(arity int) [][]string {
	var out [][]string
	for _, t := range universe {
		if len(t) == arity {
			out = append(out, t)
		}
	}
	return out
}

var instants = []int64{1, 1000, 1e9, 1700000000e9, 5, -1e9}
var floats = []float64{0, 1, -1.5, 2, 2.0000001, 3.999, 4, 4.1, 1e300, math.Inf(1), math.Inf(-1), math.NaN(), math.SmallestNonzeroFloat64}
var durs = []int64{int64(time.Hour), int64(time.Minute), 0, 1}

func randOp(rng *ev.RNG, s metricSpec) op {
	o := op{TS: ev.PickOne(rng, instants)}
	ts := tuplesOf(s.arity)
	o.Tuple = ev.PickOne(rng, ts)
	if rng.Intn(12) == 0 { // wrong arity
		for {
			o.Tuple = ev.PickOne(rng, universe)
			if len(o.Tuple) != s.arity {
				break
			}
		}
	}
	switch k := rng.Intn(10); {
	case k < 2:
		o.Kind = "get"
	case k < 6:
		switch s.typ {
		case metrics.Int:
			o.Kind = ev.PickOne(rng, []string{"set", "inc", "dec"})
			o.I = ev.PickOne(rng, []int64{0, 1, -1, 7, math.MaxInt64, math.MinInt64, 1 << 40})
		case metrics.Float:
			o.Kind = "set"
			o.F = ev.PickOne(rng, floats)
		case metrics.String:
			o.Kind = "set"
			o.S = ev.PickOne(rng, []string{"", "x", "hello world", "é\"\\"})
		case metrics.Buckets:
			o.Kind = "observe"
			o.F = ev.PickOne(rng, floats[:11])
		}
	case k < 8:
		o.Kind = "remove"
		switch rng.Intn(4) {
		case 0:
			o.Kind = "remove-oldest"
		case 1:
			o.Kind = "gc"
		}
	default:
		o.Kind = "expire"
		o.D = ev.PickOne(rng, durs)
	}
	return o
}

type witness struct {
	Spec string `json:"metric"`
	Ops  []op   `json:"ops"`
	Step int    `json:"failing_step"`
	What string `json:"what"`
}

func runSeq(s metricSpec, ops []op) (int, string) { return runSeqU(s, ops, universe) }

// runSeqU is runSeq over an explicit tuple universe.
func runSeqU(s metricSpec, ops []op, universe [][]string) (int, string) {
	real, mod := newReal(s), newModel(s)
	st := metrics.NewStore() // the store's GC is one of the operations
	_ = st.Add(real)
	for i, o := range ops {
		if w := apply(st, real, mod, o); w != "" {
			return i, w
		}
		if w := compare(real, mod, universe, i == len(ops)-1 || i%4 == 3); w != "" {
			return i, w
		}
	}
	return -1, ""
}

func TestC09(t *testing.T) {
	r := ev.Start(t, "C09", "exploration")
	defer r.Finish()
	r.Rule("operation sequences (get-or-create, set/inc/dec/observe with explicit timestamps, remove, remove-oldest, Store.Gc, expire, wrong-arity variants) applied to a real Metric and to an insertion-ordered reference list; after every op the LabelValues slice, the index (FindLabelValueOrNil for every universe tuple), EmitLabelSets and (every 4th op) JSON are compared. Non-trivial: the sequence contains a removal of a present tuple followed later by a creation, or an expiry mark on a present tuple; distinct by op-sequence text.")
	r.Assume("creation timestamp of a fresh datum is learnt from the real side (not specified)", "JSON marshalling of non-finite floats is C22's subject and skipped here")

	// exhaustive part: all sequences up to length L over a 2-tuple universe, per value type
	L := ev.Pick(4, 5)
	exSpecs := []metricSpec{{metrics.Counter, metrics.Int, 1}, {metrics.Histogram, metrics.Buckets, 1}, {metrics.Gauge, metrics.Float, 2}}
	for _, s := range exSpecs {
		ts := tuplesOf(s.arity)[:2]
		var alphabet []op
		for _, tu := range ts {
			alphabet = append(alphabet, op{Kind: "get", Tuple: tu, TS: 5})
			switch s.typ {
			case metrics.Int:
				alphabet = append(alphabet, op{Kind: "inc", Tuple: tu, I: 3, TS: 7})
			case metrics.Float:
				alphabet = append(alphabet, op{Kind: "set", Tuple: tu, F: 2.5, TS: 7})
			case metrics.Buckets:
				alphabet = append(alphabet, op{Kind: "observe", Tuple: tu, F: 2, TS: 7})
			}
			alphabet = append(alphabet, op{Kind: "remove", Tuple: tu}, op{Kind: "expire", Tuple: tu, D: int64(time.Hour)})
		}
		wrong := []string{"x", "y", "z"}[:3-s.arity+1]
		if s.arity == 1 {
			wrong = []string{"x", "y"}
		}
		alphabet = append(alphabet, op{Kind: "get", Tuple: wrong}, op{Kind: "remove", Tuple: wrong}, op{Kind: "expire", Tuple: wrong, D: 1}, op{Kind: "remove-oldest", Tuple: ts[0]}, op{Kind: "gc", Tuple: ts[0]})
		total := 1
		for i := 0; i < L; i++ {
			total *= len(alphabet)
		}
		ev.Parallel(total, runtime.GOMAXPROCS(0), func(idx int) {
			ops := make([]op, L)
			x := idx
			for i := range ops {
				ops[i] = alphabet[x%len(alphabet)]
				x /= len(alphabet)
			}
			if step, w := runSeq(s, ops); w != "" {
				r.Violation(classOf(w), witness{s.String(), ops, step, w})
			}
			r.Eval(1)
		})
		r.Count("exhaustive_sequences", total)
	}
	r.Set("exhaustive_part", fmt.Sprintf("all sequences of length %d (prefix-closed: every shorter sequence is a prefix) over {get,update,remove,expire}x2 tuples + 3 wrong-arity ops + remove-oldest + Store.Gc, for Counter/Int, Histogram/Buckets, Gauge/Float", L))

	// bursts: a metric that grows to many tuples and shrinks again (what a
	// burst of short-lived label values does), over a 96-tuple universe;
	// compared after every operation like the short sequences
	nb := ev.Pick(150, 6000)
	brng := ev.NewRNG(ev.Seed(), "c09-burst")
	ev.Parallel(nb, runtime.GOMAXPROCS(0), func(idx int) {
		g := brng.Sub(idx)
		s := specs[idx%len(specs)]
		if s.arity == 0 {
			s.arity = 1
		}
		var uni [][]string
		for i := 0; i < 96; i++ {
			t := []string{fmt.Sprintf("t%d", i)}
			for len(t) < s.arity {
				t = append(t, "x")
			}
			uni = append(uni, t)
		}
		var ops []op
		grow := g.Range(9, 96)
		order := make([]int, 96)
		for i := range order {
			order[i] = i
		}
		for i := len(order) - 1; i > 0; i-- {
			j := g.Intn(i + 1)
			order[i], order[j] = order[j], order[i]
		}
		for _, i := range order[:grow] {
			ops = append(ops, op{Kind: "get", Tuple: uni[i], TS: int64(1000 + i)})
		}
		// shrink: mostly removals (from either end or the middle), some lookups
		keep := g.Range(0, 9)
		alive := append([]int{}, order[:grow]...)
		for len(alive) > keep {
			var k int
			switch g.Intn(4) {
			case 0:
				k = 0
			case 1:
				k = len(alive) - 1
			default:
				k = g.Intn(len(alive))
			}
			switch g.Intn(8) {
			case 0:
				ops = append(ops, op{Kind: "get", Tuple: uni[alive[g.Intn(len(alive))]], TS: 5})
				continue
			case 1:
				ops = append(ops, op{Kind: "remove-oldest", Tuple: uni[0]})
				// the model decides which one went; recompute alive lazily below
				ops = append(ops, op{Kind: "get", Tuple: uni[alive[k]], TS: 7})
				continue
			}
			ops = append(ops, op{Kind: "remove", Tuple: uni[alive[k]]})
			alive = append(alive[:k], alive[k+1:]...)
		}
		for i := 0; i < 6; i++ {
			ops = append(ops, op{Kind: "get", Tuple: uni[g.Intn(96)], TS: 9}, op{Kind: "remove", Tuple: uni[g.Intn(96)]})
		}
		if step, w := runSeqU(s, ops, uni); w != "" {
			r.Violation(classOf(w), witness{s.String() + " (burst)", ops, step, w})
		}
		r.Eval(1)
		r.Count("burst_sequences", 1)
		r.Count("ops_applied", len(ops))
		r.Distinct(fmt.Sprint("burst", idx))
	})
	n := ev.Pick(6000, 400000)
	rng := ev.NewRNG(ev.Seed(), "c09")
	ev.Parallel(n, runtime.GOMAXPROCS(0), func(idx int) {
		g := rng.Sub(idx)
		s := specs[idx%len(specs)]
		ops := make([]op, g.Range(3, 30))
		for i := range ops {
			ops[i] = randOp(g, s)
		}
		step, w := runSeq(s, ops)
		if w != "" {
			r.Violation(classOf(w), witness{s.String(), ops, step, w})
		}
		r.Eval(1)
		r.Count("ops_applied", len(ops))
		// non-trivial?
		present := map[string]bool{}
		removedThenCreated, expired := false, false
		removed := map[string]bool{}
		for _, o := range ops {
			if len(o.Tuple) != s.arity {
				continue
			}
			k := strings.Join(o.Tuple, "\x00")
			switch o.Kind {
			case "remove-oldest":
				r.Count("remove_oldest_ops", 1)
			case "gc":
				r.Count("gc_ops", 1)
			case "remove":
				if present[k] {
					removed[k] = true
				}
				delete(present, k)
			case "expire":
				if present[k] {
					expired = true
				}
			default:
				if removed[k] && !present[k] {
					removedThenCreated = true
				}
				present[k] = true
			}
		}
		if removedThenCreated || expired {
			b, _ := json.Marshal(ops)
			r.Distinct(s.String() + string(b))
			if idx < 40 && idx%len(specs) < 3 {
				r.Sample(map[string]any{"metric": s.String(), "ops": ops})
			}
		}
		r.Count("spec_"+s.String(), 1)
	})
}

func classOf(w string) string {
	f := strings.Fields(w)
	if len(f) > 3 {
		f = f[:3]
	}
	return strings.Join(f, "-")
}
