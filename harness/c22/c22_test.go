//go:build verif

// C22 — every export format reports each label set's own value.
// Monitor: reference formatters (written from the format descriptions) and a
// JSON round-trip decoder vs the real /json /varz /graphite handlers and the
// graphite/statsd/collectd push path.
package c22

import (
	"bytes"
	"context"
	"encoding/json"
	"flag"
	"fmt"
	"io"
	"math"
	"net"
	"net/http/httptest"
	"os"
	"path/filepath"
	"regexp"
	"runtime"
	"sort"
	"strconv"
	"strings"
	"sync"
	"sync/atomic"
	"testing"
	"time"

	"github.com/google/mtail/internal/exporter"
	"github.com/google/mtail/internal/metrics"
	"github.com/google/mtail/internal/metrics/datum"
	"github.com/google/mtail/verif/ev"
)

type lset struct {
	Labels []string `json:"labels"`
	I      int64    `json:"i,omitempty"`
	F      string   `json:"f,omitempty"`
	f      float64
	S      string    `json:"s,omitempty"`
	Obs    []float64 `json:"observations,omitempty"`
	TS     int64     `json:"ts_unix"`
}

type mspec struct {
	Name   string   `json:"name"`
	Prog   string   `json:"prog"`
	Kind   string   `json:"kind"`
	Type   string   `json:"type"`
	Keys   []string `json:"keys"`
	Sets   []lset   `json:"label_sets"`
	kind   metrics.Kind
	typ    metrics.Type
	bounds []float64
}

type spec struct {
	Metrics  []mspec `json:"metrics"`
	Host     string  `json:"hostname"`
	OmitProg bool    `json:"omit_prog_label"`
	Prefix   string  `json:"prefix"`
}

var labelAlpha = []string{"a", "b", "Z", "0", "9", "é", "+", "#", "@", "x1", "long", "%", "%s", "%2F"}
var namePool = []string{"requests", "latency_ms", "queue", "a", "errors_total", "up", "size"}

func genSpec(g *ev.RNG, prefix string, nonFinite bool) spec {
	s := spec{Host: ev.PickOne(g, []string{"host1", "h", "node9"}), OmitProg: g.Intn(3) == 0, Prefix: prefix}
	nm := g.Range(1, 5)
	uniq := int64(g.Intn(50))
	ts := int64(1600000000 + g.Intn(1000)*1000)
	usedNF := map[string]bool{}
	off := g.Intn(len(namePool))
	for i := 0; i < nm; i++ {
		var m mspec
		m.Name = namePool[(off+i)%len(namePool)]
		m.Prog = ev.PickOne(g, []string{"p1.mtail", "p2.mtail"})
		m.kind = ev.PickOne(g, []metrics.Kind{metrics.Counter, metrics.Gauge, metrics.Timer, metrics.Histogram, metrics.Text, metrics.Counter, metrics.Gauge})
		switch m.kind {
		case metrics.Text:
			m.typ = metrics.String
		case metrics.Histogram:
			m.typ = metrics.Buckets
			m.bounds = ev.PickOne(g, [][]float64{{1, 2, 4}, {0.5, 10}})
		default:
			m.typ = ev.PickOne(g, []metrics.Type{metrics.Int, metrics.Float})
		}
		m.Kind, m.Type = m.kind.String(), m.typ.String()
		nk := g.Intn(4)
		m.Keys = []string{"code", "host", "method"}[:nk]
		if nk > 0 && g.Bool() {
			// keys not in sorted order: formats sort them
			m.Keys = append([]string{}, []string{"zone", "code", "method"}[:nk]...)
		}
		ns := g.Range(2, 5)
		if nk == 0 {
			ns = 1
		}
		seen := map[string]bool{}
		for j := 0; j < ns; j++ {
			var ls lset
			for range m.Keys {
				v := ""
				for c := 0; c <= g.Intn(2); c++ {
					v += ev.PickOne(g, labelAlpha)
				}
				ls.Labels = append(ls.Labels, v)
			}
			k := strings.Join(ls.Labels, "\x00")
			if seen[k] {
				continue
			}
			seen[k] = true
			uniq++
			ts++
			ls.TS = ts
			switch m.typ {
			case metrics.Int:
				ls.I = uniq * 7
				if g.Intn(10) == 0 {
					ls.I = -uniq
				}
			case metrics.Float:
				ls.f = float64(uniq) + 0.25
				if nonFinite && g.Intn(4) == 0 {
					for _, c := range []float64{math.Inf(1), math.Inf(-1), math.NaN()} {
						if !usedNF[fmt.Sprint(c)] {
							usedNF[fmt.Sprint(c)] = true
							ls.f = c
							break
						}
					}
				}
				ls.F = fmt.Sprint(ls.f)
			case metrics.String:
				ls.S = fmt.Sprintf("text%d", uniq)
			case metrics.Buckets:
				for o := 0; o < int(uniq%4)+1; o++ {
					ls.Obs = append(ls.Obs, []float64{0.25, 1.5, 3, 100}[(int(uniq)+o)%4]+float64(uniq)/1000)
				}
			}
			m.Sets = append(m.Sets, ls)
		}
		s.Metrics = append(s.Metrics, m)
	}
	return s
}

func build(s spec) *metrics.Store {
	st := metrics.NewStore()
	for _, ms := range s.Metrics {
		m := metrics.NewMetric(ms.Name, ms.Prog, ms.kind, ms.typ, ms.Keys...)
		m.Source = ms.Prog + ":1:1"
		if ms.typ == metrics.Buckets {
			lo := 0.0
			for _, b := range ms.bounds {
				m.Buckets = append(m.Buckets, datum.Range{Min: lo, Max: b})
				lo = b
			}
			m.Buckets = append(m.Buckets, datum.Range{Min: lo, Max: math.Inf(1)})
		}
		for _, ls := range ms.Sets {
			d, _ := m.GetDatum(ls.Labels...)
			ts := time.Unix(ls.TS, 0)
			switch ms.typ {
			case metrics.Int:
				datum.SetInt(d, ls.I, ts)
			case metrics.Float:
				datum.SetFloat(d, ls.f, ts)
			case metrics.String:
				datum.SetString(d, ls.S, ts)
			case metrics.Buckets:
				for _, o := range ls.Obs {
					datum.Observe(d, o, ts)
				}
			}
		}
		_ = st.Add(m)
	}
	return st
}

// ---- reference formatters -------------------------------------------------

func valueString(m mspec, ls lset) string {
	switch m.typ {
	case metrics.Int:
		return strconv.FormatInt(ls.I, 10)
	case metrics.Float:
		return fmt.Sprintf("%g", ls.f)
	case metrics.String:
		return ls.S
	}
	sum := 0.0
	for _, o := range ls.Obs {
		sum += o
	}
	return fmt.Sprintf("%g", sum)
}

// sortedKV joins "k<ksep>v" pairs sorted by key with sep.
func sortedKV(m mspec, ls lset, ksep, sep string) string {
	var kv []string
	idx := make([]int, len(m.Keys))
	for i := range idx {
		idx[i] = i
	}
	sort.Slice(idx, func(a, b int) bool { return m.Keys[idx[a]] < m.Keys[idx[b]] })
	for _, i := range idx {
		kv = append(kv, m.Keys[i]+ksep+ls.Labels[i])
	}
	return strings.Join(kv, sep)
}

func refVarz(s spec, m mspec, ls lset) []string {
	var parts []string
	if len(m.Keys) > 0 {
		// varz sorts "k=v" strings
		var kv []string
		for i, k := range m.Keys {
			kv = append(kv, k+"="+ls.Labels[i])
		}
		sort.Strings(kv)
		parts = append(parts, kv...)
	}
	if !s.OmitProg {
		parts = append(parts, "prog="+m.Prog)
	}
	parts = append(parts, "instance="+s.Host)
	return []string{fmt.Sprintf("%s{%s} %s", m.Name, strings.Join(parts, ","), valueString(m, ls))}
}

func graphitePath(s spec, m mspec, ls lset) string {
	p := s.Prefix + m.Prog + "." + m.Name
	if len(m.Keys) > 0 {
		p += "." + sortedKV(m, ls, ".", ".")
	}
	return p
}

func refGraphite(s spec, m mspec, ls lset) []string {
	var out []string
	if m.kind == metrics.Histogram {
		bounds := append(append([]float64{}, m.bounds...), math.Inf(1))
		counts := make([]uint64, len(bounds))
		for _, o := range ls.Obs {
			for bi, b := range bounds {
				if o <= b {
					counts[bi]++
					break
				}
			}
		}
		for bi, b := range bounds {
			name := fmt.Sprintf("%v", b)
			if math.IsInf(b, 1) {
				name = "inf"
			}
			out = append(out, fmt.Sprintf("%s.bin_%s %d %d", graphitePath(s, m, ls), name, counts[bi], ls.TS))
		}
		out = append(out, fmt.Sprintf("%s.count %d %d", graphitePath(s, m, ls), len(ls.Obs), ls.TS))
	}
	out = append(out, fmt.Sprintf("%s %s %d", graphitePath(s, m, ls), valueString(m, ls), ls.TS))
	return out
}

func refStatsd(s spec, m mspec, ls lset) []string {
	t := map[metrics.Kind]string{metrics.Counter: "c", metrics.Gauge: "g", metrics.Timer: "ms"}[m.kind]
	return []string{fmt.Sprintf("%s:%s|%s", graphitePath(s, m, ls), valueString(m, ls), t)}
}

func refCollectd(s spec, m mspec, ls lset) []string {
	typ := strings.ToLower(m.kind.String())
	if m.kind == metrics.Timer {
		typ = "gauge"
	}
	name := m.Name
	if len(m.Keys) > 0 {
		name += "-" + sortedKV(m, ls, "-", "-")
	}
	return []string{fmt.Sprintf("PUTVAL \"%s/%smtail-%s/%s-%s\" interval=%d %d:%s", s.Host, s.Prefix, m.Prog, typ, name, 60, ls.TS, valueString(m, ls))}
}

func inScope(format string, m mspec) bool {
	switch format {
	case "varz", "json":
		return true
	case "graphite":
		return m.kind == metrics.Counter || m.kind == metrics.Gauge || m.kind == metrics.Timer || m.kind == metrics.Histogram
	}
	return m.kind == metrics.Counter || m.kind == metrics.Gauge || m.kind == metrics.Timer
}

// outOfScopePrefix identifies records of metrics the statement does not cover
// (text metrics, histograms in statsd/collectd) so they can be ignored.
func outOfScope(format string, s spec, rec string) bool {
	for _, m := range s.Metrics {
		if inScope(format, m) {
			continue
		}
		switch format {
		case "graphite", "statsd":
			if strings.HasPrefix(rec, s.Prefix+m.Prog+"."+m.Name) {
				return true
			}
		case "collectd":
			if strings.Contains(rec, "mtail-"+m.Prog+"/") && strings.Contains(rec, "-"+m.Name) && (strings.Contains(rec, "/text-") || strings.Contains(rec, "/histogram-")) {
				return true
			}
		}
	}
	return false
}

// canon makes a record independent of the order in which label pairs are
// listed (the statement does not fix an order): the pairs between the metric
// name and the value are sorted.
func canon(format string, s spec, rec string) string {
	sortPairs := func(body, sep string, width int) string {
		parts := strings.Split(body, sep)
		if len(parts)%width != 0 {
			return body
		}
		var pairs []string
		for i := 0; i+width <= len(parts); i += width {
			pairs = append(pairs, strings.Join(parts[i:i+width], sep))
		}
		sort.Strings(pairs)
		return strings.Join(pairs, sep)
	}
	switch format {
	case "varz":
		o, c := strings.Index(rec, "{"), strings.LastIndex(rec, "}")
		if o < 0 || c < o {
			return rec
		}
		return rec[:o+1] + sortPairs(rec[o+1:c], ",", 1) + rec[c:]
	case "graphite", "statsd":
		for _, m := range s.Metrics {
			head := s.Prefix + m.Prog + "." + m.Name
			if !strings.HasPrefix(rec, head+".") || len(m.Keys) == 0 {
				continue
			}
			rest := rec[len(head)+1:]
			end := strings.IndexAny(rest, " :")
			if end < 0 {
				continue
			}
			path, tail := rest[:end], rest[end:]
			suffix := ""
			if i := strings.Index(path, ".bin_"); i >= 0 {
				path, suffix = path[:i], path[i:]
			} else if strings.HasSuffix(path, ".count") {
				path, suffix = strings.TrimSuffix(path, ".count"), ".count"
			}
			segs := strings.Split(path, ".")
			if len(segs) != 2*len(m.Keys) {
				continue
			}
			return head + "." + sortPairs(strings.Join(segs, "."), ".", 2) + suffix + tail
		}
	case "collectd":
		for _, m := range s.Metrics {
			if len(m.Keys) == 0 {
				continue
			}
			typ := strings.ToLower(m.kind.String())
			if m.kind == metrics.Timer {
				typ = "gauge"
			}
			marker := "/" + typ + "-" + m.Name + "-"
			i := strings.Index(rec, marker)
			j := strings.Index(rec, "\" interval=")
			if i < 0 || j < i || !strings.Contains(rec, "mtail-"+m.Prog+"/") {
				continue
			}
			body := rec[i+len(marker) : j]
			if len(strings.Split(body, "-")) != 2*len(m.Keys) {
				continue
			}
			return rec[:i+len(marker)] + sortPairs(body, "-", 2) + rec[j:]
		}
	}
	return rec
}

func compareRecords(format string, s spec, got []string, ref func(spec, mspec, lset) []string) string {
	want := map[string]int{}
	for _, m := range s.Metrics {
		if !inScope(format, m) {
			continue
		}
		for _, ls := range m.Sets {
			for _, l := range ref(s, m, ls) {
				want[canon(format, s, l)]++
			}
		}
	}
	have := map[string]int{}
	for _, g := range got {
		if g == "" || outOfScope(format, s, g) {
			continue
		}
		have[canon(format, s, g)]++
	}
	var missing, extra []string
	for l, n := range want {
		if have[l] < n {
			missing = append(missing, l)
		}
	}
	for l, n := range have {
		if want[l] < n {
			extra = append(extra, l)
		}
	}
	sort.Strings(missing)
	sort.Strings(extra)
	if len(missing) > 0 || len(extra) > 0 {
		return fmt.Sprintf("records missing: %q; records not expected: %q", clip(missing), clip(extra))
	}
	return ""
}

func clip(x []string) []string {
	if len(x) > 4 {
		return x[:4]
	}
	return x
}

// abortWriter cancels the request's context at its k-th write.
type abortWriter struct {
	*httptest.ResponseRecorder
	k, n   int
	cancel context.CancelFunc
}

func (w *abortWriter) Write(p []byte) (int, error) {
	w.n++
	if w.n >= w.k {
		w.cancel()
	}
	return w.ResponseRecorder.Write(p)
}

// pollCtx is a context that turns out cancelled at the after-th look at it.
type pollCtx struct {
	context.Context
	polls  atomic.Int32
	after  int32
	cancel context.CancelFunc
}

func (c *pollCtx) look() {
	if c.polls.Add(1) >= c.after {
		c.cancel()
	}
}

func (c *pollCtx) Done() <-chan struct{} { c.look(); return c.Context.Done() }
func (c *pollCtx) Err() error            { c.look(); return c.Context.Err() }

type recWriter struct{ recs []string }

func (w *recWriter) Write(p []byte) (int, error) {
	w.recs = append(w.recs, string(p))
	return len(p), nil
}

func checkJSON(s spec, body []byte) string {
	var ms []struct {
		Name, Program string
		Kind, Type    int
		Keys          []string
		LabelValues   []struct {
			Labels []string
			Value  struct {
				Value   json.RawMessage
				Time    int64
				Buckets map[string]uint64
				Count   uint64
				Sum     float64
			}
		}
	}
	if err := json.Unmarshal(body, &ms); err != nil {
		return "JSON does not decode: " + err.Error()
	}
	if len(ms) != len(s.Metrics) {
		return fmt.Sprintf("JSON lists %d metrics want %d", len(ms), len(s.Metrics))
	}
	for _, want := range s.Metrics {
		found := false
		for _, m := range ms {
			if m.Name != want.Name || m.Program != want.Prog {
				continue
			}
			found = true
			if m.Kind != int(want.kind) || m.Type != int(want.typ) || strings.Join(m.Keys, ",") != strings.Join(want.Keys, ",") {
				return fmt.Sprintf("metric %s/%s: kind/type/keys %d/%d/%v want %d/%d/%v", want.Prog, want.Name, m.Kind, m.Type, m.Keys, want.kind, want.typ, want.Keys)
			}
			if len(m.LabelValues) != len(want.Sets) {
				return fmt.Sprintf("metric %s/%s: %d label sets want %d", want.Prog, want.Name, len(m.LabelValues), len(want.Sets))
			}
			for _, ws := range want.Sets {
				ok := false
				for _, lv := range m.LabelValues {
					if strings.Join(lv.Labels, "\x00") != strings.Join(ws.Labels, "\x00") || len(lv.Labels) != len(ws.Labels) {
						continue
					}
					ok = true
					if lv.Value.Time != ws.TS*1e9 {
						return fmt.Sprintf("%s%q time %d want %d", want.Name, ws.Labels, lv.Value.Time, ws.TS*1e9)
					}
					switch want.typ {
					case metrics.Int:
						if string(lv.Value.Value) != strconv.FormatInt(ws.I, 10) {
							return fmt.Sprintf("%s%q value %s want %d", want.Name, ws.Labels, lv.Value.Value, ws.I)
						}
					case metrics.Float:
						f, err := strconv.ParseFloat(string(lv.Value.Value), 64)
						if err != nil || f != ws.f {
							return fmt.Sprintf("%s%q value %s want %v", want.Name, ws.Labels, lv.Value.Value, ws.f)
						}
					case metrics.String:
						var sv string
						_ = json.Unmarshal(lv.Value.Value, &sv)
						if sv != ws.S {
							return fmt.Sprintf("%s%q value %q want %q", want.Name, ws.Labels, sv, ws.S)
						}
					case metrics.Buckets:
						if lv.Value.Count != uint64(len(ws.Obs)) {
							return fmt.Sprintf("%s%q count %d want %d", want.Name, ws.Labels, lv.Value.Count, len(ws.Obs))
						}
					}
				}
				if !ok {
					return fmt.Sprintf("metric %s: label set %q missing from JSON", want.Name, ws.Labels)
				}
			}
		}
		if !found {
			return fmt.Sprintf("metric %s/%s missing from JSON", want.Prog, want.Name)
		}
	}
	return ""
}

func hasNonFinite(s spec) bool {
	for _, m := range s.Metrics {
		for _, ls := range m.Sets {
			if m.typ == metrics.Float && (math.IsNaN(ls.f) || math.IsInf(ls.f, 0)) {
				return true
			}
		}
	}
	return false
}

type witness struct {
	Spec   spec   `json:"store"`
	Format string `json:"format"`
	What   string `json:"what"`
	Output string `json:"output,omitempty"`
}

func TestC22(t *testing.T) {
	r := ev.Start(t, "C22", "exploration")
	defer r.Finish()
	r.Rule("random stores with >=2 label sets per dimensioned metric and pairwise distinct values and timestamps (every kind/type, 0-3 keys incl. unsorted key order, label values over an alphabet without whitespace/separators but with %, %s and %2F, non-finite floats in a quarter of the stores, random prefixes and hostnames) exported through /json, /varz, /graphite (httptest) and the graphite/statsd/collectd push path (verif write hook, one record per write); records compared as multisets with reference formatters written from the format descriptions; JSON decoded and compared field by field. Non-trivial: >=1 dimensioned metric with >=2 label sets; distinct by spec.")
	r.Assume("label values contain no whitespace and none of . - _ , = { } / \" : | (as the quantifier states)", "records of metrics outside a format's stated scope (text; histograms for statsd/collectd) are ignored")
	per := ev.Pick(700, 34000)
	rng := ev.NewRNG(ev.Seed(), "c22")
	for pi, prefix := range []string{"", "pre.", "mtail_"} {
		_ = flag.Set("graphite_prefix", prefix)
		_ = flag.Set("statsd_prefix", prefix)
		_ = flag.Set("collectd_prefix", prefix)
		ev.Parallel(per, runtime.GOMAXPROCS(0), func(i int) {
			g := rng.Sub(pi*1000000 + i)
			s := genSpec(g, prefix, i%4 == 0)
			st := build(s)
			opts := []exporter.Option{exporter.Hostname(s.Host), exporter.DisableExport(), exporter.PushInterval(60 * time.Second)}
			if s.OmitProg {
				opts = append(opts, exporter.OmitProgLabel())
			}
			e, err := exporter.New(context.Background(), st, opts...)
			if err != nil {
				t.Error(err)
				return
			}
			defer e.Stop()
			bad := func(format, what, out string) {
				w := witness{Spec: s, Format: format, What: what, Output: out}
				if format == "json" && hasNonFinite(s) && strings.Contains(what, "unsupported value") {
					r.Known("C22-b", w)
					r.Count("known_C22b", 1)
					return
				}
				r.Violation(format+"-"+strings.Fields(what)[0], w)
			}
			// what happened before must not matter: in a third of the stores a
			// Prometheus scrape and aborted /varz and /graphite requests (client
			// gone after the k-th write) precede the judged exports
			if i%3 == 1 {
				var pb bytes.Buffer
				_ = e.Write(&pb)
				for _, h := range []string{"varz", "graphite"} {
					ctx, cancel := context.WithCancel(context.Background())
					aw := &abortWriter{ResponseRecorder: httptest.NewRecorder(), k: 1 + g.Intn(4), cancel: cancel}
					var rctx context.Context = ctx
					if g.Bool() {
						// or: gone by the k-th time the handler looks at the context
						rctx = &pollCtx{Context: ctx, after: int32(1 + g.Intn(4)), cancel: cancel}
					}
					req := httptest.NewRequest("GET", "/"+h, nil).WithContext(rctx)
					if h == "varz" {
						e.HandleVarz(aw, req)
					} else {
						e.HandleGraphite(aw, req)
					}
					cancel()
				}
				r.Count("stores_with_preceding_scrape_and_aborted_requests", 1)
			}
			// JSON
			rec := httptest.NewRecorder()
			e.HandleJSON(rec, httptest.NewRequest("GET", "/json", nil))
			if rec.Code != 200 {
				bad("json", fmt.Sprintf("status %d: %s", rec.Code, strings.TrimSpace(rec.Body.String())), "")
			} else if w := checkJSON(s, rec.Body.Bytes()); w != "" {
				bad("json", w, rec.Body.String())
			} else {
				r.Count("json_ok", 1)
			}
			// varz
			rec = httptest.NewRecorder()
			e.HandleVarz(rec, httptest.NewRequest("GET", "/varz", nil))
			if w := compareRecords("varz", s, strings.Split(rec.Body.String(), "\n"), refVarz); rec.Code != 200 || w != "" {
				bad("varz", fmt.Sprintf("status %d %s", rec.Code, w), rec.Body.String())
			}
			// graphite handler
			rec = httptest.NewRecorder()
			e.HandleGraphite(rec, httptest.NewRequest("GET", "/graphite", nil))
			if w := compareRecords("graphite", s, strings.Split(rec.Body.String(), "\n"), refGraphite); rec.Code != 200 || w != "" {
				bad("graphite-handler", fmt.Sprintf("status %d %s", rec.Code, w), rec.Body.String())
			}
			// push formats
			for _, f := range []struct {
				name string
				ref  func(spec, mspec, lset) []string
			}{{"graphite", refGraphite}, {"statsd", refStatsd}, {"collectd", refCollectd}} {
				rw := &recWriter{}
				if err := e.WriteSocketMetricsForVerif(rw, f.name); err != nil {
					bad(f.name, "push write path failed: "+err.Error(), "")
					continue
				}
				var recs []string
				for _, x := range rw.recs {
					if f.name == "statsd" {
						recs = append(recs, x) // one record per write, no newline
					} else {
						recs = append(recs, strings.Split(strings.TrimRight(x, "\n"), "\n")...)
					}
				}
				if w := compareRecords(f.name, s, recs, f.ref); w != "" {
					bad("push-"+f.name, w, strings.Join(recs, "\n"))
				}
			}
			r.Eval(1)
			multi := false
			for _, m := range s.Metrics {
				if len(m.Sets) >= 2 {
					multi = true
				}
			}
			if multi {
				r.Distinct(fmt.Sprintf("%+v", s))
				if i < 2 && pi == 1 {
					r.Sample(s)
				}
			}
			r.Count("stores", 1)
			var nrec bytes.Buffer
			_ = nrec
		})
	}
	_ = flag.Set("graphite_prefix", "")
	_ = flag.Set("statsd_prefix", "")
	_ = flag.Set("collectd_prefix", "")
	if r.Violations() == 0 {
		concurrentPhase(t, r)
	}
	if r.Violations() == 0 {
		realPush(t, r)
	}
}

// realPush: the real PushMetrics path with all three push targets configured
// at once (graphite over tcp, collectd over a unix socket, statsd over udp):
// every collector must receive its own format's records for the store, once
// per push, and nothing of another format.
func realPush(t *testing.T, r *ev.Run) {
	dir, _ := os.MkdirTemp(ev.Scratch(), "c22push")
	defer os.RemoveAll(dir)
	defer func() {
		_ = flag.Set("graphite_host_port", "")
		_ = flag.Set("collectd_socketpath", "")
		_ = flag.Set("statsd_hostport", "")
	}()
	rng := ev.NewRNG(ev.Seed(), "c22-push")
	for round := 0; round < ev.Pick(4, 60) && r.Violations() == 0; round++ {
		g := rng.Sub(round)
		s := genSpec(g, "", false)
		st := build(s)
		tl, err := net.Listen("tcp", "127.0.0.1:0")
		if err != nil {
			r.Inconclusive("cannot listen on tcp: " + err.Error())
			return
		}
		ul, err := net.Listen("unix", filepath.Join(dir, fmt.Sprintf("collectd-%d.sock", round)))
		if err != nil {
			r.Inconclusive("cannot listen on a unix socket: " + err.Error())
			return
		}
		uc, err := net.ListenPacket("udp", "127.0.0.1:0")
		if err != nil {
			r.Inconclusive("cannot listen on udp: " + err.Error())
			return
		}
		type rx struct {
			mu    sync.Mutex
			conns int
			data  []string
		}
		got := map[string]*rx{"graphite": {}, "collectd": {}, "statsd": {}}
		var awg sync.WaitGroup
		serve := func(name string, ln net.Listener) {
			awg.Add(1)
			go func() {
				defer awg.Done()
				for {
					c, err := ln.Accept()
					if err != nil {
						return
					}
					b, _ := io.ReadAll(c)
					c.Close()
					x := got[name]
					x.mu.Lock()
					x.conns++
					x.data = append(x.data, string(b))
					x.mu.Unlock()
				}
			}()
		}
		serve("graphite", tl)
		serve("collectd", ul)
		awg.Add(1)
		go func() {
			defer awg.Done()
			buf := make([]byte, 65536)
			for {
				n, _, err := uc.ReadFrom(buf)
				if err != nil {
					return
				}
				x := got["statsd"]
				x.mu.Lock()
				x.data = append(x.data, string(buf[:n]))
				x.mu.Unlock()
			}
		}()
		_ = flag.Set("graphite_host_port", tl.Addr().String())
		_ = flag.Set("collectd_socketpath", ul.Addr().String())
		_ = flag.Set("statsd_hostport", uc.LocalAddr().String())
		e, err := exporter.New(context.Background(), st, exporter.Hostname(s.Host), exporter.PushInterval(60*time.Second))
		if err != nil {
			t.Fatal(err)
		}
		e.PushMetrics()
		e.Stop()
		// the exporter has written and closed its connections: wait (logical
		// condition, generous watchdog) until both stream collectors have read
		// a connection to its end before the listeners go away
		deadline := time.Now().Add(30 * time.Second)
		for time.Now().Before(deadline) {
			n := 0
			for _, name := range []string{"graphite", "collectd"} {
				x := got[name]
				x.mu.Lock()
				if x.conns >= 1 {
					n++
				}
				x.mu.Unlock()
			}
			if n == 2 {
				break
			}
			time.Sleep(time.Millisecond)
		}
		tl.Close()
		ul.Close()
		uc.SetReadDeadline(time.Now().Add(200 * time.Millisecond))
		awg.Wait()
		uc.Close()
		r.Eval(1)
		r.Count("real_pushes_with_three_targets", 1)
		for _, f := range []struct {
			name string
			ref  func(spec, mspec, lset) []string
		}{{"graphite", refGraphite}, {"collectd", refCollectd}, {"statsd", refStatsd}} {
			x := got[f.name]
			var recs []string
			for _, d := range x.data {
				if f.name == "statsd" {
					recs = append(recs, d)
				} else {
					recs = append(recs, strings.Split(strings.TrimRight(d, "\n"), "\n")...)
				}
			}
			if f.name != "statsd" && x.conns != 1 {
				r.Violation("real-push-"+f.name, map[string]any{"spec": s, "what": fmt.Sprintf("the %s collector saw %d connections for one push, want 1", f.name, x.conns), "received": clip(recs)})
				break
			}
			if w := compareRecords(f.name, s, recs, f.ref); w != "" {
				r.Violation("real-push-"+f.name, map[string]any{"spec": s, "what": "records received by the " + f.name + " collector (all three push targets configured): " + w, "received": clip(recs)})
				break
			}
		}
	}
}

// concurrentPhase: the outputs are produced while label sets of the same metric
// are removed and created again (what programs' del / expiry / limits and new
// labels do; a re-created label set goes to the end of the metric's list, so
// the list keeps shifting under the export). Every label set always carries
// the same distinctive value. Mutations and exports are stamped from one
// logical clock; a label set no mutation of which overlaps an export was
// present and unchanged for the whole export, so whatever state the export
// observed, it must have exactly one record with its own value.
func concurrentPhase(t *testing.T, r *ev.Run) {
	st := metrics.NewStore()
	m := metrics.NewMetric("cc", "p", metrics.Counter, metrics.Int, "k")
	const nSets = 32
	key := func(i int) string { return fmt.Sprintf("s%d", i) }
	for i := 0; i < nSets; i++ {
		d, _ := m.GetDatum(key(i))
		datum.SetInt(d, int64(7000+i), time.Unix(2000+int64(i), 0))
	}
	if err := st.Add(m); err != nil {
		t.Fatal(err)
	}
	e, err := exporter.New(context.Background(), st, exporter.Hostname("h"), exporter.DisableExport(), exporter.PushInterval(60*time.Second))
	if err != nil {
		t.Fatal(err)
	}
	defer e.Stop()
	type span struct{ s, e int64 }
	var clk atomic.Int64
	var logMu sync.Mutex
	ops := make([][]span, nSets)
	stop := make(chan struct{})
	var mut sync.WaitGroup
	var flips atomic.Int64
	for w := 0; w < 2; w++ {
		w := w
		mut.Add(1)
		go func() {
			defer mut.Done()
			for n := 0; ; n++ {
				select {
				case <-stop:
					return
				default:
				}
				i := (2*n + w) % nSets
				logMu.Lock()
				ops[i] = append(ops[i], span{clk.Add(1), math.MaxInt64})
				at := len(ops[i]) - 1
				logMu.Unlock()
				_ = m.RemoveDatum(key(i))
				if n%5 == 0 {
					runtime.Gosched()
				}
				d, _ := m.GetDatum(key(i))
				datum.SetInt(d, int64(7000+i), time.Unix(2000+int64(i), 0))
				logMu.Lock()
				ops[i][at].e = clk.Add(1)
				logMu.Unlock()
				flips.Add(1)
				runtime.Gosched()
			}
		}()
	}
	tokRe, valRe := make([]*regexp.Regexp, nSets), make([]*regexp.Regexp, nSets)
	for i := range tokRe {
		tokRe[i] = regexp.MustCompile(fmt.Sprintf(`(^|[^A-Za-z0-9])s%d([^A-Za-z0-9]|$)`, i))
		valRe[i] = regexp.MustCompile(fmt.Sprintf(`(^|[^0-9])%d([^0-9]|$)`, 7000+i))
	}
	var judged atomic.Int64
	judge := func(c0, c1 int64, recs []string) string {
		logMu.Lock()
		stable := make([]bool, nSets)
		for i := range stable {
			stable[i] = true
			for _, o := range ops[i] {
				if o.s <= c1 && o.e >= c0 {
					stable[i] = false
				}
			}
		}
		logMu.Unlock()
		for i := 0; i < nSets; i++ {
			if !stable[i] {
				continue
			}
			judged.Add(1)
			n, val := 0, false
			for _, rec := range recs {
				if tokRe[i].MatchString(rec) {
					n++
					val = valRe[i].MatchString(rec)
				}
			}
			if n != 1 || !val {
				return fmt.Sprintf("label set k=s%d (present and unmodified for the whole export, value %d) has %d records (own value on the last: %v)", i, 7000+i, n, val)
			}
		}
		return ""
	}
	n := ev.Pick(150, 3000)
	var exports atomic.Int64
	var wg sync.WaitGroup
	for _, format := range []string{"varz", "graphite-handler", "json", "push-graphite", "push-statsd", "push-collectd"} {
		format := format
		wg.Add(1)
		go func() {
			defer wg.Done()
			for i := 0; i < n && r.Violations() == 0; i++ {
				var recs []string
				c0 := clk.Add(1)
				switch format {
				case "varz", "graphite-handler":
					rec := httptest.NewRecorder()
					if format == "varz" {
						e.HandleVarz(rec, httptest.NewRequest("GET", "/varz", nil))
					} else {
						e.HandleGraphite(rec, httptest.NewRequest("GET", "/graphite", nil))
					}
					recs = strings.Split(rec.Body.String(), "\n")
				case "json":
					rec := httptest.NewRecorder()
					e.HandleJSON(rec, httptest.NewRequest("GET", "/json", nil))
					var ms []struct {
						Name        string
						LabelValues []struct {
							Labels []string
							Value  struct{ Value json.RawMessage }
						}
					}
					if err := json.Unmarshal(rec.Body.Bytes(), &ms); err != nil {
						r.Violation("concurrent-json", map[string]any{"what": "JSON does not decode: " + err.Error()})
						return
					}
					for _, mm := range ms {
						for _, lv := range mm.LabelValues {
							recs = append(recs, strings.Join(lv.Labels, ",")+" "+string(lv.Value.Value))
						}
					}
				default:
					rw := &recWriter{}
					if err := e.WriteSocketMetricsForVerif(rw, strings.TrimPrefix(format, "push-")); err != nil {
						r.Violation("concurrent-"+format, map[string]any{"what": "push write path failed: " + err.Error()})
						return
					}
					for _, x := range rw.recs {
						recs = append(recs, strings.Split(strings.TrimRight(x, "\n"), "\n")...)
					}
				}
				c1 := clk.Add(1)
				if w := judge(c0, c1, recs); w != "" {
					r.Violation("concurrent-"+format, map[string]any{"format": format, "what": w + "; the export ran while other label sets of the metric were being removed and re-created", "output": recs})
					return
				}
				exports.Add(1)
			}
		}()
	}
	wg.Wait()
	close(stop)
	mut.Wait()
	r.Eval(1)
	r.Count("concurrent_exports_judged", int(exports.Load()))
	r.Count("concurrent_stable_label_sets_judged", int(judged.Load()))
	r.Count("concurrent_label_set_removals_and_creations", int(flips.Load()))
	r.Distinct("concurrent-phase")
	r.Floor("concurrent_stable_label_sets_judged", 1000)
}
