// C21 — histograms count every observation in exactly one bucket.
// Monitor: reference bucketing vs the real datum (direct and through the
// compiler + VM + Prometheus/JSON export).
package c21

import (
	"bytes"
	"context"
	"encoding/json"
	"fmt"
	"math"
	"runtime"
	"sort"
	"strconv"
	"strings"
	"testing"
	"time"

	"github.com/google/mtail/internal/exporter"
	"github.com/google/mtail/internal/metrics"
	"github.com/google/mtail/internal/metrics/datum"
	"github.com/google/mtail/verif/ev"
	"github.com/google/mtail/verif/mt"
	"github.com/prometheus/common/expfmt"
)

// reference: first declared bound >= v; above all bounds and NaN -> +Inf.
type ref struct {
	bounds []float64 // declared, sorted; +Inf appended
	counts []uint64
	count  uint64
	sum    float64
}

func newRef(declared []float64) *ref {
	b := append(append([]float64{}, declared...), math.Inf(1))
	return &ref{bounds: b, counts: make([]uint64, len(b))}
}

func (r *ref) observe(v float64) {
	idx := len(r.bounds) - 1
	for i, b := range r.bounds {
		if v <= b { // false for NaN
			idx = i
			break
		}
	}
	r.counts[idx]++
	r.count++
	r.sum += v
}

func feq(a, b float64) bool { return a == b || (math.IsNaN(a) && math.IsNaN(b)) }

func fs(v float64) string { return strconv.FormatFloat(v, 'g', -1, 64) }

func fss(v []float64) []string {
	o := make([]string, len(v))
	for i, x := range v {
		o[i] = fs(x)
	}
	return o
}

type witness struct {
	Path     string            `json:"path"`
	Declared []string          `json:"declared_bounds"`
	Obs      []string          `json:"observations"`
	What     string            `json:"what"`
	Got      map[string]uint64 `json:"got_buckets_by_upper_bound,omitempty"`
	Want     map[string]uint64 `json:"want_buckets_by_upper_bound,omitempty"`
	Program  string            `json:"program,omitempty"`
}

// compareDatum checks the real buckets datum against the reference. When the
// first declared bound is <= 0 the implementation is known (C21-b) to use it as
// a lower bound only; knownB reports whether the deviation is exactly that.
func compareDatum(d datum.Datum, r *ref, declared []float64) (what string, knownB bool, got, want map[string]uint64) {
	b := datum.GetBuckets(d)
	got = map[string]uint64{}
	var gotBounds []float64
	var sumBuckets uint64
	for rg, c := range b.GetBuckets() {
		got[fs(rg.Max)] = c
		gotBounds = append(gotBounds, rg.Max)
		sumBuckets += c
	}
	sort.Float64s(gotBounds)
	want = map[string]uint64{}
	for i, ub := range r.bounds {
		want[fs(ub)] = r.counts[i]
	}
	if b.GetCount() != r.count {
		return fmt.Sprintf("count %d want %d", b.GetCount(), r.count), false, got, want
	}
	if !feq(b.GetSum(), r.sum) {
		return fmt.Sprintf("sum %v want %v", b.GetSum(), r.sum), false, got, want
	}
	if sumBuckets != r.count {
		return fmt.Sprintf("bucket counts sum to %d but count is %d", sumBuckets, r.count), false, got, want
	}
	same := len(got) == len(want)
	for k, v := range want {
		if g, ok := got[k]; !ok || g != v {
			same = false
		}
	}
	if same {
		return "", false, got, want
	}
	// classifier for C21-b
	if declared[0] <= 0 && len(gotBounds) == len(r.bounds)-1 {
		ok := true
		for i, ub := range r.bounds[1:] {
			if gotBounds[i] != ub {
				ok = false
			}
		}
		if ok {
			// expected counts when the first bound is merged into the second
			for i, ub := range r.bounds[1:] {
				w := r.counts[i+1]
				if i == 0 {
					w += r.counts[0]
				}
				if got[fs(ub)] != w {
					ok = false
				}
			}
		}
		if ok {
			return "first declared bound <= 0 is not exported as an upper bound", true, got, want
		}
	}
	return "bucket bounds/counts differ from the reference", false, got, want
}

func genBounds(g *ev.RNG) []float64 {
	n := g.Range(2, 8)
	pool := []float64{-1000, -3.5, -2.5, -1, -0.5, 0, 1e-9, 1e-7, 0.001, 0.5, 1, 2, 2.5, 4, 8, 10, 100, 1e6, 1e15, 1e300}
	if g.Intn(5) == 0 {
		// fine-grained histograms: many boundaries (a lookup that depends on
		// the number of buckets must agree with the few-bucket one)
		n = g.Range(9, 48)
		for i := 3; i <= 40; i++ {
			pool = append(pool, float64(i)+0.25, float64(i)*16)
		}
	}
	set := map[float64]bool{}
	for len(set) < n {
		set[ev.PickOne(g, pool)] = true
	}
	var b []float64
	for v := range set {
		b = append(b, v)
	}
	sort.Float64s(b)
	// -0 / 0 normalisation: only 0 in pool.
	return b
}

func genObs(g *ev.RNG, bounds []float64, n int, finiteOnly bool) ([]float64, map[string]int) {
	classes := map[string]int{}
	var out []float64
	for i := 0; i < n; i++ {
		b := ev.PickOne(g, bounds)
		var v float64
		var c string
		switch g.Intn(10) {
		case 9:
			// whole numbers next to the bound (these also go down the Int path)
			v, c = ev.PickOne(g, []float64{math.Ceil(b), math.Floor(b), math.Trunc(b), math.Ceil(b) + 1, math.Floor(b) - 1}), "integer_near_bound"
			if math.Abs(v) > 1e15 {
				v = math.Trunc(float64(g.Range(-5, 5)))
			}
		case 0:
			v, c = b, "at_bound"
		case 1:
			v, c = math.Nextafter(b, math.Inf(1)), "just_above"
		case 2:
			v, c = math.Nextafter(b, math.Inf(-1)), "just_below"
		case 3:
			v, c = -math.Abs(b)-1, "negative"
		case 4:
			v, c = ev.PickOne(g, []float64{0, math.Copysign(0, -1)}), "zero"
		case 5:
			v, c = math.Inf(1), "+Inf"
		case 6:
			v, c = math.Inf(-1), "-Inf"
		case 7:
			v, c = math.NaN(), "NaN"
		default:
			v, c = (g.Float()-0.3)*b*3, "random"
		}
		if finiteOnly && (math.IsNaN(v) || math.IsInf(v, 0)) {
			v, c = b, "at_bound"
		}
		classes[c]++
		out = append(out, v)
	}
	return out, classes
}

func boundsLit(b []float64) string {
	s := make([]string, len(b))
	for i, v := range b {
		if v == math.Trunc(v) && math.Abs(v) < 1e15 {
			s[i] = strconv.FormatFloat(v, 'f', -1, 64)
		} else {
			s[i] = strconv.FormatFloat(v, 'g', -1, 64)
		}
	}
	return strings.Join(s, ", ")
}

func TestC21(t *testing.T) {
	r := ev.Start(t, "C21", "exploration")
	defer r.Finish()
	r.Rule("(declaration, observation sequence) cases: 2-8 (one case in five: 9-48) sorted bounds from a pool incl. negative, 0, 1e-9..1e300; observations at / just below / just above bounds, negatives, ±0, ±Inf, NaN. Path A: datum.MakeBuckets+Observe with ranges built as the compiler builds them; path B: `histogram` declared in a compiled program (scalar and `by k`), values fed as log lines through float($2) and, for whole numbers, also through an Int-typed capture into a third histogram, then read from the datum, the JSON export and the Prometheus text export. Non-trivial: >=3 observations hitting >=2 different reference buckets; distinct by (bounds, observations).")
	r.Assume("float sum compared bit-exactly in observation order (NaN-aware)", "log-line path: values printed with strconv 'g' -1 and parsed by the VM with ParseFloat (round-trips exactly)")
	n := ev.Pick(3000, 200000)
	rng := ev.NewRNG(ev.Seed(), "c21")
	classTotals := make([]map[string]int, n)
	ev.Parallel(n, runtime.GOMAXPROCS(0), func(i int) {
		g := rng.Sub(i)
		declared := genBounds(g)
		if i%3 == 0 && declared[0] <= 0 {
			// keep a healthy share of all-positive declarations
			for declared[0] <= 0 && len(declared) > 2 {
				declared = declared[1:]
			}
		}
		obs, classes := genObs(g, declared, g.Range(1, 40), false)
		classTotals[i] = classes
		rf := newRef(declared)
		hit := map[int]bool{}
		for _, v := range obs {
			before := append([]uint64{}, rf.counts...)
			rf.observe(v)
			for k := range before {
				if before[k] != rf.counts[k] {
					hit[k] = true
				}
			}
		}
		if len(obs) >= 3 && len(hit) >= 2 {
			r.Distinct(fmt.Sprint(declared, obs))
		}
		report := func(path, what string, known bool, got, want map[string]uint64, prog string) {
			w := witness{path, fss(declared), fss(obs), what, got, want, prog}
			if known {
				r.Known("C21-b", w)
				r.Count("known_C21b_cases", 1)
				return
			}
			r.Violation(strings.Join(strings.Fields(what)[:2], "-"), w)
		}

		// Path B (every case): through the compiler and VM
		name := mt.UniqueName("c21p")
		src := fmt.Sprintf("histogram h buckets %s\nhistogram hk by k buckets %s\nhistogram hi buckets %s\n/^(\\S+) (\\S+)$/ {\n  h = float($2)\n  hk[$1] = float($2)\n}\n/^int:(-?\\d+)$/ {\n  hi = $1\n}\nhistogram hd by k buckets %s\n/^d (\\S+) (\\S+)$/ {\n  hd[$1] = float($2)\n}\n/^deld:(\\S+)$/ {\n  del hd[$1]\n}\n", boundsLit(declared), boundsLit(declared), boundsLit(declared), boundsLit(declared))
		p, err := mt.Load(name, src, mt.VMOpts{})
		if err != nil {
			r.Violation("compile-rejected", witness{"compiler", fss(declared), nil, err.Error(), nil, nil, src})
			return
		}
		defer p.Close()
		// label sets that come and go: observations under p, p deleted, the rest
		// under q, q deleted, the first part again under p — every label set
		// starts from nothing, whatever was there before
		if len(obs) >= 2 {
			var mhd *metrics.Metric
			for _, m := range p.Obj.Metrics {
				if m.Name == "hd" {
					mhd = m
				}
			}
			cut := 1 + g.Intn(len(obs)-1)
			for round, part := range []struct {
				key string
				vs  []float64
			}{{"p", obs[:cut]}, {"q", obs[cut:]}, {"p", obs[:cut]}} {
				rfp := newRef(declared)
				for _, v := range part.vs {
					if p.Line("f", "d "+part.key+" "+fs(v)) {
						report("vm", "runtime error on observation "+fs(v)+": "+p.VM.RuntimeErrorString(), false, nil, nil, src)
						return
					}
					rfp.observe(v)
				}
				d, err := mhd.GetDatum(part.key)
				if err != nil {
					report("vm", "GetDatum: "+err.Error(), false, nil, nil, src)
					return
				}
				if what, known, got, want := compareDatum(d, rfp, declared); what != "" && !known {
					report(fmt.Sprintf("dimensioned histogram, label set %q created after another label set was deleted (round %d)", part.key, round), what, false, got, want, src)
					return
				}
				if p.Line("f", "deld:"+part.key) {
					report("vm", "runtime error on del: "+p.VM.RuntimeErrorString(), false, nil, nil, src)
					return
				}
				r.Count("label_sets_created_after_a_deletion", 1)
			}
		}
		rfInt := newRef(declared) // what the Int-typed path must produce
		for _, v := range obs {
			if p.Line("f", "x "+fs(v)) {
				report("vm", "runtime error on observation "+fs(v)+": "+p.VM.RuntimeErrorString(), false, nil, nil, src)
				return
			}
			if v == math.Trunc(v) && math.Abs(v) < 1e15 {
				// the same observation through an Int-typed capture (iset on a histogram)
				if p.Line("f", "int:"+strconv.FormatInt(int64(v), 10)) {
					report("vm", "runtime error on Int observation "+fs(v)+": "+p.VM.RuntimeErrorString(), false, nil, nil, src)
					return
				}
				rfInt.observe(float64(int64(v)))
				r.Count("int_typed_observations", 1)
			}
		}
		r.Count("observations", len(obs))
		var mh, mhk, mhi *metrics.Metric
		for _, m := range p.Obj.Metrics {
			switch m.Name {
			case "h":
				mh = m
			case "hk":
				mhk = m
			case "hi":
				mhi = m
			}
		}
		if rfInt.count > 0 {
			dhi, _ := mhi.GetDatum()
			if what, known, got, want := compareDatum(dhi, rfInt, declared); what != "" {
				report("compiled histogram fed by an Int-typed capture", what, known, got, want, src)
				if !known {
					return
				}
			}
		}
		dh, _ := mh.GetDatum()
		dhk, _ := mhk.GetDatum("x")
		knownSeen := false
		for pi, d := range []datum.Datum{dh, dhk} {
			what, known, got, want := compareDatum(d, rf, declared)
			if what != "" {
				report([]string{"compiled scalar histogram", "compiled dimensioned histogram"}[pi], what, known, got, want, src)
				knownSeen = known
				if !known {
					return
				}
			}
		}
		// Path A: direct datum with compiler-style ranges (only meaningful when b0 > 0)
		if declared[0] > 0 {
			rs := []datum.Range{{Min: 0, Max: declared[0]}}
			for k := 1; k < len(declared); k++ {
				rs = append(rs, datum.Range{Min: declared[k-1], Max: declared[k]})
			}
			d := datum.MakeBuckets(rs, time.Time{})
			for _, v := range obs {
				datum.Observe(d, v, time.Unix(1, 0))
			}
			if what, known, got, want := compareDatum(d, rf, declared); what != "" {
				report("datum.MakeBuckets+Observe", what, known, got, want, "")
				return
			}
		}
		// Exports: Prometheus text and JSON upper bounds, cumulative counts
		store := metrics.NewStore()
		_ = store.Add(mh)
		_ = store.Add(mhk)
		e, err := exporter.New(context.Background(), store, exporter.Hostname("h"), exporter.DisableExport())
		if err != nil {
			t.Fatal(err)
		}
		var buf bytes.Buffer
		if err := e.Write(&buf); err != nil {
			report("prometheus", "Exporter.Write failed: "+err.Error(), false, nil, nil, src)
			e.Stop()
			return
		}
		e.Stop()
		var tp expfmt.TextParser
		fams, err := tp.TextToMetricFamilies(&buf)
		if err != nil {
			report("prometheus", "exposition does not parse: "+err.Error(), false, nil, nil, src)
			return
		}
		for _, fn := range []string{"h", "hk"} {
			f := fams[fn]
			if f == nil || len(f.Metric) != 1 || f.Metric[0].Histogram == nil {
				report("prometheus", "histogram family "+fn+" missing or malformed", false, nil, nil, src)
				return
			}
			h := f.Metric[0].Histogram
			got := map[string]uint64{}
			for _, b := range h.Bucket {
				got[fs(b.GetUpperBound())] = b.GetCumulativeCount()
			}
			want := map[string]uint64{}
			cum := uint64(0)
			for k, ub := range rf.bounds {
				cum += rf.counts[k]
				want[fs(ub)] = cum
			}
			same := len(got) == len(want)
			for k, v := range want {
				if got[k] != v {
					same = false
				}
				if _, ok := got[k]; !ok {
					same = false
				}
			}
			if !same {
				if knownSeen && len(got) == len(want)-1 {
					ok := true
					for k, v := range got {
						if want[k] != v {
							ok = false
						}
					}
					if ok {
						continue // same C21-b deviation seen through the export
					}
				}
				report("prometheus "+fn, "exported cumulative buckets differ from the reference", false, got, want, src)
				return
			}
			if h.GetSampleCount() != rf.count || !feq(h.GetSampleSum(), rf.sum) {
				report("prometheus "+fn, fmt.Sprintf("exported count/sum %d/%v want %d/%v", h.GetSampleCount(), h.GetSampleSum(), rf.count, rf.sum), false, nil, nil, src)
				return
			}
		}
		// JSON (finite sums only; non-finite floats are C22's subject)
		if !math.IsNaN(rf.sum) && !math.IsInf(rf.sum, 0) {
			jb, err := json.Marshal(dh)
			if err != nil {
				report("json", "marshal failed: "+err.Error(), false, nil, nil, src)
				return
			}
			var jd struct {
				Buckets map[string]uint64
				Count   uint64
				Sum     float64
			}
			if err := json.Unmarshal(jb, &jd); err != nil {
				report("json", "unmarshal failed: "+err.Error(), false, nil, nil, src)
				return
			}
			want := map[string]uint64{}
			for k, ub := range rf.bounds {
				want[fs(ub)] = rf.counts[k]
			}
			same := len(jd.Buckets) == len(want) && jd.Count == rf.count
			for k, v := range want {
				if g, ok := jd.Buckets[k]; !ok || g != v {
					same = false
				}
			}
			if !same && !knownSeen {
				report("json", "JSON buckets differ from the reference", false, jd.Buckets, want, src)
				return
			}
			r.Count("json_checked", 1)
		}
		r.Count("prometheus_checked", 1)
		r.Eval(1)
		if i < 3 {
			r.Sample(map[string]any{"declared": fss(declared), "observations": fss(obs), "reference_counts": rf.counts})
		}
	})
	tot := map[string]int{}
	for _, c := range classTotals {
		for k, v := range c {
			tot[k] += v
		}
	}
	r.Set("observation_classes", tot)
}
