//go:build verif

// C06 — programs are isolated from each other.
// Monitor: differential (a program run together with others vs alone on the
// same lines, through the same real Runtime + Store + Prometheus registry) plus
// a small model of the one permitted interaction (refusal on a kind clash).
package c06

import (
	"context"
	"fmt"
	"net/http/httptest"
	"sort"
	"strings"
	"sync"
	"testing"

	"github.com/google/mtail/internal/exporter"
	"github.com/google/mtail/internal/logline"
	"github.com/google/mtail/internal/metrics"
	mrt "github.com/google/mtail/internal/runtime"
	"github.com/google/mtail/verif/ev"
	"github.com/prometheus/client_golang/prometheus"
	"github.com/prometheus/client_golang/prometheus/promhttp"
)

type mdecl struct {
	Name   string `json:"name"`
	Kind   string `json:"kind"` // counter gauge
	Float  bool   `json:"float"`
	Keys   int    `json:"keys"`
	Hidden bool   `json:"hidden"`
}

type pspec struct {
	Decls    []mdecl `json:"decls"`
	Broken   bool    `json:"syntax_error"`
	Erroring bool    `json:"raises_runtime_errors"`
	Nonce    int     `json:"nonce"`
}

func (p pspec) source() string {
	var b strings.Builder
	for _, d := range p.Decls {
		if d.Hidden {
			b.WriteString("hidden ")
		}
		b.WriteString(d.Kind + " " + d.Name)
		if d.Keys > 0 {
			b.WriteString(" by " + strings.Join([]string{"k", "j"}[:d.Keys], ", "))
		}
		b.WriteString("\n")
	}
	if p.Erroring {
		b.WriteString("hidden gauge ez\n")
	}
	b.WriteString("/^v (\\w+) (\\d+)$/ {\n")
	for _, d := range p.Decls {
		idx := ""
		switch d.Keys {
		case 1:
			idx = "[$1]"
		case 2:
			idx = "[$1, \"z\"]"
		}
		rhs := "$2"
		if d.Float {
			rhs = "$2 * 0.5"
		}
		op := " = "
		if d.Kind == "counter" {
			op = " += "
		}
		b.WriteString("  " + d.Name + idx + op + rhs + "\n")
	}
	b.WriteString("}\n")
	if p.Erroring {
		b.WriteString("/^v (\\w+)/ {\n  ez = int($1)\n}\n")
	}
	if p.Broken {
		b.WriteString("this is { not valid\n")
	}
	fmt.Fprintf(&b, "# nonce %d\n", p.Nonce)
	return b.String()
}

var lines = []string{"v a 3", "v b 4", "v 7 10", "junk", "v a 1", "v 12 2", "v b 5"}

type world struct {
	store *metrics.Store
	rt    *mrt.Runtime
	in    chan *logline.LogLine
	wg    sync.WaitGroup
	exp   *exporter.Exporter
	reg   *prometheus.Registry
}

func newWorld(t *testing.T, omitSource bool) *world {
	w := &world{store: metrics.NewStore(), in: make(chan *logline.LogLine)}
	var err error
	w.exp, err = exporter.New(context.Background(), w.store, exporter.Hostname("h"), exporter.DisableExport())
	if err != nil {
		t.Fatal(err)
	}
	w.reg = prometheus.NewRegistry()
	_ = w.reg.Register(w.exp)
	var opts []mrt.Option
	if omitSource {
		opts = append(opts, mrt.OmitMetricSource())
	}
	w.rt, err = mrt.New(w.in, &w.wg, "", w.store, opts...)
	if err != nil {
		t.Fatal(err)
	}
	return w
}

func (w *world) close() {
	close(w.in)
	w.wg.Wait()
	w.exp.Stop()
}

func (w *world) feed(ls ...string) {
	for _, l := range ls {
		w.in <- logline.New(nil, "log", l)
	}
	w.in <- logline.New(nil, "log", "barrier")
	w.in <- logline.New(nil, "log", "barrier")
}

// projection renders everything exported for program alias (store + scrape),
// with the program name replaced by a placeholder.
func (w *world) projection(prog string) string {
	var rows []string
	_ = w.store.Range(func(m *metrics.Metric) error {
		if m.Program != prog {
			return nil
		}
		m.RLock()
		defer m.RUnlock()
		head := fmt.Sprintf("%s %v %v keys=%v hidden=%v", m.Name, m.Kind, m.Type, m.Keys, m.Hidden)
		if len(m.LabelValues) == 0 {
			rows = append(rows, head+" (no data)")
		}
		for _, lv := range m.LabelValues {
			rows = append(rows, fmt.Sprintf("%s %q=%s", head, lv.Labels, lv.Value.ValueString()))
		}
		return nil
	})
	rec := httptest.NewRecorder()
	promhttp.HandlerFor(w.reg, promhttp.HandlerOpts{}).ServeHTTP(rec, httptest.NewRequest("GET", "/metrics", nil))
	if rec.Code != 200 {
		rows = append(rows, fmt.Sprintf("SCRAPE FAILED %d %s", rec.Code, strings.TrimSpace(rec.Body.String())))
	}
	for _, l := range strings.Split(rec.Body.String(), "\n") {
		if strings.Contains(l, "prog=\""+prog+"\"") {
			rows = append(rows, "scrape: "+strings.ReplaceAll(l, prog, "PROG"))
		}
	}
	sort.Strings(rows)
	return strings.ReplaceAll(strings.Join(rows, "\n"), prog, "PROG")
}

var aloneCache sync.Map

// alone runs one program by itself.
func alone(t *testing.T, p pspec, batches [][]string, omitSource bool) string {
	key := fmt.Sprintf("%+v|%v|%v", p, batches, omitSource)
	if v, ok := aloneCache.Load(key); ok {
		return v.(string)
	}
	w := newWorld(t, omitSource)
	defer w.close()
	name := "alone.mtail"
	if err := w.rt.CompileAndRun(name, strings.NewReader(p.source())); err != nil {
		aloneCache.Store(key, "LOAD FAILED")
		mrt.ProgLoadErrors.Delete(name)
		return "LOAD FAILED"
	}
	for _, b := range batches {
		w.feed(b...)
	}
	out := w.projection(name)
	aloneCache.Store(key, out)
	return out
}

type op struct {
	Kind string `json:"op"` // load lines unload reload-edited
	Prog int    `json:"prog"`
}

func genProg(g *ev.RNG, nonce int) pspec {
	p := pspec{Nonce: nonce}
	names := []string{"x", "y"}
	n := g.Range(1, 2)
	off := g.Intn(2)
	for i := 0; i < n; i++ {
		p.Decls = append(p.Decls, mdecl{Name: names[(off+i)%2], Kind: ev.PickOne(g, []string{"counter", "gauge", "counter"}), Float: g.Intn(3) == 0, Keys: g.Intn(3), Hidden: g.Intn(6) == 0})
	}
	switch g.Intn(8) {
	case 0:
		p.Broken = true
	case 1, 2:
		p.Erroring = true
	}
	return p
}

func permutations(n int) [][]int {
	if n == 1 {
		return [][]int{{0}}
	}
	var out [][]int
	for _, p := range permutations(n - 1) {
		for i := 0; i <= len(p); i++ {
			q := append(append(append([]int{}, p[:i]...), n-1), p[i:]...)
			out = append(out, q)
		}
	}
	return out
}

func TestC06(t *testing.T) {
	r := ev.Start(t, "C06", "exploration")
	defer r.Finish()
	r.Rule("sets of 1-4 programs drawn from a family sharing the metric names x,y (same/different kind, Int/Float, scalar / 1 / 2 keys, hidden), some with a syntax error, two of them byte-identical in every fifth set, some raising runtime errors on half of the lines; loaded into one real Runtime in every order (sets <=3, exhaustively) or a random order with interleaved unload / edited-reload of other programs (sets of 4); lines fed in two batches. For every program that the refusal model says loads, the projection of the store and of the Prometheus scrape onto that program must equal the projection of the same program run alone on the same lines; refused/broken programs must export nothing. Non-trivial: set with >=2 programs sharing a metric name; distinct by (set, order).")
	r.Assume("refusal model: a program is refused iff, when it is loaded, one of its non-hidden names is in the store with another kind", "a program edited by another program's reload keeps its declarations in place (C14 covers the rest)")
	nsets := ev.Pick(60, 2500)
	rng := ev.NewRNG(ev.Seed(), "c06")
	for si := 0; si < nsets; si++ {
		g := rng.Sub(si)
		np := g.Range(1, 4)
		var progs []pspec
		for i := 0; i < np; i++ {
			progs = append(progs, genProg(g, i))
		}
		if np >= 2 && si%5 == 2 {
			// two files with byte-identical text are still two programs
			progs[np-1] = progs[0]
			r.Count("sets_with_two_byte_identical_programs", 1)
		}
		var orders [][]int
		if np <= 3 {
			orders = permutations(np)
		} else {
			for k := 0; k < 3; k++ {
				o := permutations(np)
				orders = append(orders, o[g.Intn(len(o))])
			}
		}
		shared := false
		seenNames := map[string]int{}
		for _, p := range progs {
			for _, d := range p.Decls {
				seenNames[d.Name]++
			}
		}
		for _, c := range seenNames {
			if c > 1 {
				shared = true
			}
		}
		for oi, order := range orders {
			what := runSet(t, r, g, fmt.Sprintf("s%d_%d", si, oi), progs, order, np == 4 || (np >= 2 && oi%2 == 1))
			r.Eval(1)
			if what != "" {
				r.Violation(strings.Join(strings.Fields(what)[:2], "-"), map[string]any{"programs": progs, "sources": sources(progs), "load_order": order, "what": what})
				if r.Violations() > 8 {
					return
				}
				continue
			}
			if shared && np >= 2 {
				r.Distinct(fmt.Sprintf("%+v %v", progs, order))
				if si < 3 && oi == 0 {
					r.Sample(map[string]any{"sources": sources(progs), "load_order": order})
				}
			}
		}
	}
}

func sources(ps []pspec) []string {
	var out []string
	for _, p := range ps {
		out = append(out, p.source())
	}
	return out
}

func runSet(t *testing.T, r *ev.Run, g *ev.RNG, tag string, progs []pspec, order []int, interleave bool) string {
	omitSource := g.Intn(3) == 0
	if omitSource {
		r.Count("sets_with_omit_metric_source", 1)
	}
	w := newWorld(t, omitSource)
	defer w.close()
	name := func(i int) string { return fmt.Sprintf("%s_p%d.mtail", tag, i) }
	defer func() {
		for i := range progs {
			mrt.ProgLoads.Delete(name(i))
			mrt.ProgLoadErrors.Delete(name(i))
			mrt.ProgUnloads.Delete(name(i))
		}
	}()
	kinds := map[string]string{} // name -> kind held in the store
	loaded := map[int]bool{}
	expectLoad := func(p pspec) bool {
		if p.Broken {
			return false
		}
		for _, d := range p.Decls {
			if d.Hidden {
				continue
			}
			if k, ok := kinds[d.Name]; ok && k != d.Kind {
				return false
			}
		}
		return true
	}
	for _, i := range order {
		p := progs[i]
		want := expectLoad(p)
		err := w.rt.CompileAndRun(name(i), strings.NewReader(p.source()))
		if (err == nil) != want {
			return fmt.Sprintf("load outcome: program %d loaded=%v, the refusal model says %v (error: %v)", i, err == nil, want, err)
		}
		if want {
			loaded[i] = true
			for _, d := range p.Decls {
				if !d.Hidden {
					kinds[d.Name] = d.Kind
				}
			}
			r.Count("programs_loaded", 1)
		} else {
			r.Count("programs_refused_or_broken", 1)
		}
	}
	batches := [][]string{lines[:4], lines[4:]}
	running := map[int]bool{}
	for i := range loaded {
		running[i] = true
	}
	w.feed(batches[0]...)
	// between the batches: disturb the OTHER programs; remember which programs
	// were running during which batch
	second := map[int]bool{}
	for i := range running {
		second[i] = true
	}
	if interleave {
		for i := range progs {
			if !loaded[i] {
				continue
			}
			switch g.Intn(5) {
			case 4:
				// reload with the kind of a non-hidden metric flipped: the name is in the
				// store with the other kind (at least from this program's running
				// version), so the load must be refused and change nothing
				f := progs[i]
				f.Decls = append([]mdecl{}, f.Decls...)
				flipped := false
				for di := range f.Decls {
					// only where ANOTHER loaded program exports the name with the current
					// kind: then the refusal is the statement's permitted interaction
					// (whether a program may change the kind of a name only it uses is
					// not this property's business)
					other := false
					for j, q := range progs {
						if j == i || !loaded[j] {
							continue
						}
						for _, qd := range q.Decls {
							if !qd.Hidden && qd.Name == f.Decls[di].Name && qd.Kind == f.Decls[di].Kind {
								other = true
							}
						}
					}
					if !f.Decls[di].Hidden && other {
						f.Decls[di].Kind = map[string]string{"counter": "gauge", "gauge": "counter"}[f.Decls[di].Kind]
						flipped = true
						break
					}
				}
				if flipped {
					f.Nonce += 300
					if err := w.rt.CompileAndRun(name(i), strings.NewReader(f.source())); err == nil {
						return fmt.Sprintf("kind-flip reload: program %d changed the kind of a metric name that is in the store with the other kind and was accepted", i)
					}
					r.Count("interleaved_kind_flip_reloads", 1)
				}
			case 0:
				w.rt.UnloadProgram(name(i))
				delete(second, i)
				r.Count("interleaved_unloads", 1)
			case 1:
				e := progs[i]
				e.Nonce += 100 // comment-only edit: declarations stay in place
				if err := w.rt.CompileAndRun(name(i), strings.NewReader(e.source())); err != nil {
					return fmt.Sprintf("edited reload: program %d (comment-only edit) was refused: %v", i, err)
				}
				r.Count("interleaved_reloads", 1)
			case 2:
				b := progs[i]
				b.Broken = true
				b.Nonce += 200
				_ = w.rt.CompileAndRun(name(i), strings.NewReader(b.source())) // fails; old version keeps running
				r.Count("interleaved_broken_reloads", 1)
			}
		}
	}
	w.feed(batches[1]...)
	for i, p := range progs {
		got := w.projection(name(i))
		if !loaded[i] {
			if got != "" {
				return fmt.Sprintf("refused program: program %d was refused/broken but exports:\n%s", i, got)
			}
			continue
		}
		b := [][]string{batches[0]}
		if second[i] {
			b = append(b, batches[1])
		}
		pa := p
		pa.Nonce = 0
		want := alone(t, pa, b, omitSource)
		if got != want {
			return fmt.Sprintf("projection differs: program %d run together with the others:\n%s\n--- alone:\n%s", i, got, want)
		}
		r.Count("projections_compared", 1)
	}
	return ""
}
