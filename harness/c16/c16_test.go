// C16 — a tailed file delivers every appended line exactly once across rotation.
// Monitor: reference model of "file generations" vs the real tailer.Tailer +
// fileStream on the real filesystem, driven step by step with logical barriers
// (harness-controlled wakers); unique ids in every write make the comparison a
// sequence equality.
package c16

import (
	"context"
	"expvar"
	"fmt"
	"io"
	"os"
	"path/filepath"
	"runtime"
	"strconv"
	"strings"
	"sync"
	"testing"
	"time"

	"github.com/google/mtail/internal/logline"
	"github.com/google/mtail/internal/tailer"
	"github.com/google/mtail/verif/ev"
	"github.com/google/mtail/verif/fsdrv"
)

var ops = []string{"line", "frag", "crlf", "truncate", "rotate", "copytruncate", "delete", "recreate", "poll", "fragcr", "lf"}

type model struct {
	exists  bool
	pending string // unterminated bytes of the current generation not yet delivered
	offset  int    // bytes of the current generation the tailer has consumed
	want    []string
}

func (m *model) endGeneration() {
	if m.pending != "" {
		m.want = append(m.want, m.pending)
		m.pending = ""
	}
	m.offset = 0
}

func (m *model) appendBytes(s string) {
	m.offset += len(s)
	m.pending += s
	for {
		i := strings.IndexByte(m.pending, '\n')
		if i < 0 {
			break
		}
		l := strings.TrimSuffix(m.pending[:i], "\r")
		m.want = append(m.want, l)
		m.pending = m.pending[i+1:]
	}
}

type world struct {
	dir, path string
	tl        *tailer.Tailer
	streamW   *fsdrv.StepWaker
	patternW  *fsdrv.StepWaker
	cancel    context.CancelFunc
	wg        sync.WaitGroup
	mu        sync.Mutex
	got       []string
	drained   chan struct{}
	live      int // streams the model expects to be alive
	seq       int
	gen       int
}

const watchdog = 60 * time.Second

func logCount() int {
	n, _ := strconv.Atoi(expvar.Get("log_count").String())
	return n
}

func (w *world) barrierStreams() string {
	w.streamW.Broadcast()
	if !fsdrv.Await(func() bool { return w.streamW.Waiting() >= w.live }, watchdog) {
		return fmt.Sprintf("barrier: %d stream(s) expected back at the waker, %d arrived", w.live, w.streamW.Waiting())
	}
	return ""
}

func (w *world) barrierPatterns() string {
	w.patternW.Broadcast()
	if !fsdrv.Await(func() bool { return w.patternW.Waiting() >= 1 }, watchdog) {
		return "barrier: the pattern poller did not return to its waker"
	}
	return ""
}

func dump() string {
	buf := make([]byte, 1<<20)
	return string(buf[:runtime.Stack(buf, true)])
}

func appendFile(path, s string) error {
	f, err := os.OpenFile(path, os.O_APPEND|os.O_WRONLY|os.O_CREATE, 0o644)
	if err != nil {
		return err
	}
	defer f.Close()
	_, err = f.WriteString(s)
	return err
}

// runHistory returns ("", ...) when delivered == expected.
func runHistory(base string, idx int, hist []string, preMode int) (what string, got, want []string, inconclusive bool) {
	// preMode 0: empty file; 1: terminated content present before tailing begins
	// (nothing is primed: the first step may be a truncation of a file the
	// tailer has not read a byte of); 2: content ending in an unterminated line
	preexisting := preMode == 2
	dir := filepath.Join(base, fmt.Sprintf("h%d", idx))
	_ = os.MkdirAll(dir, 0o755)
	defer os.RemoveAll(dir)
	w := &world{dir: dir, path: filepath.Join(dir, "log"), streamW: fsdrv.NewStepWaker(), patternW: fsdrv.NewStepWaker(), drained: make(chan struct{})}
	m := &model{exists: true}
	pre := ""
	if preexisting {
		pre = "old1\nold2\npartial-old"
	}
	if preMode == 1 {
		pre = "old line one\nold line two, long enough to exceed what the first new lines add up to ....................\n"
	}
	if err := os.WriteFile(w.path, []byte(pre), 0o644); err != nil {
		return "setup: " + err.Error(), nil, nil, true
	}
	if preexisting {
		// the unterminated tail that was there before tailing began is not "appended after tailing began",
		// but later appends in the same generation continue that physical line: keep histories simple by
		// terminating it first through the model-visible route below.
	}
	ctx, cancel := context.WithCancel(context.Background())
	w.cancel = cancel
	lines := make(chan *logline.LogLine)
	go func() {
		for l := range lines {
			w.mu.Lock()
			w.got = append(w.got, l.Line)
			w.mu.Unlock()
		}
		close(w.drained)
	}()
	base0 := logCount()
	tl, err := tailer.New(ctx, &w.wg, lines, tailer.LogPatterns([]string{w.path}), tailer.LogstreamPollWaker(w.streamW), tailer.LogPatternPollWaker(w.patternW))
	if err != nil {
		cancel()
		return "tailer.New: " + err.Error(), nil, nil, true
	}
	w.tl = tl
	w.live = 1
	if !fsdrv.Await(func() bool { return w.streamW.Waiting() >= 1 && w.patternW.Waiting() >= 1 }, watchdog) {
		cancel()
		return "startup: stream / pattern poller did not reach their wakers", nil, nil, true
	}
	fail := func(s string) (string, []string, []string, bool) {
		d := dump()
		cancel()
		return s + "\n" + d, nil, nil, true
	}
	if preexisting {
		// finish the pre-existing partial line so that what follows is attributable
		_ = appendFile(w.path, "\n")
		m.appendBytes("\n")
		m.want = nil // that line started before tailing began; whatever is delivered for it is ignored below
		if s := w.barrierStreams(); s != "" {
			return fail(s)
		}
		fsdrv.Await(func() bool { w.mu.Lock(); defer w.mu.Unlock(); return len(w.got) >= 1 }, time.Second)
		w.mu.Lock()
		w.got = nil
		w.mu.Unlock()
	}
	for _, op := range hist {
		w.seq++
		id := fmt.Sprintf("g%d-%d", w.gen, w.seq)
		switch op {
		case "line", "frag", "crlf", "fragcr", "lf":
			if !m.exists {
				continue
			}
			// fragcr + lf: a CRLF line whose CR and LF arrive in different appends
			s := map[string]string{"line": "L" + id + "\n", "frag": "F" + id, "crlf": "C" + id + "\r\n", "fragcr": "R" + id + "\r", "lf": "\n"}[op]
			if err := appendFile(w.path, s); err != nil {
				return fail("append: " + err.Error())
			}
			m.appendBytes(s)
		case "truncate", "copytruncate":
			if !m.exists {
				continue
			}
			if op == "copytruncate" {
				b, _ := os.ReadFile(w.path)
				_ = os.WriteFile(w.path+".1", b, 0o644)
			}
			if err := os.Truncate(w.path, 0); err != nil {
				return fail("truncate: " + err.Error())
			}
			if m.offset > 0 {
				m.endGeneration()
				w.gen++
			}
		case "rotate":
			if !m.exists {
				continue
			}
			_ = os.Rename(w.path, w.path+".1")
			if err := os.WriteFile(w.path, nil, 0o644); err != nil {
				return fail("create: " + err.Error())
			}
			m.endGeneration()
			w.gen++
		case "delete":
			if !m.exists {
				continue
			}
			_ = os.Remove(w.path)
			m.endGeneration()
			m.exists = false
			w.gen++
			w.live = 0
		case "recreate":
			if m.exists {
				continue
			}
			if err := os.WriteFile(w.path, nil, 0o644); err != nil {
				return fail("recreate: " + err.Error())
			}
			m.exists = true
			if s := w.barrierPatterns(); s != "" {
				return fail(s)
			}
			w.live = 1
			if !fsdrv.Await(func() bool { return w.streamW.Waiting() >= 1 }, watchdog) {
				return fail("recreate: no stream came to the waker after the pattern poll (path not tailed again)")
			}
			continue
		case "poll":
			if s := w.barrierPatterns(); s != "" {
				return fail(s)
			}
		}
		if s := w.barrierStreams(); s != "" {
			return fail(s)
		}
		if op == "delete" {
			// the stream must end and be forgotten before the path can be tailed again
			if !fsdrv.Await(func() bool { return logCount() <= base0 }, watchdog) {
				return fail("delete: the stream on the deleted path did not end")
			}
		}
	}
	// stop tailing: the last generation ends
	m.endGeneration()
	cancel()
	w.streamW.Broadcast()
	w.patternW.Broadcast()
	done := make(chan struct{})
	go func() { w.wg.Wait(); close(done) }()
	select {
	case <-done:
	case <-time.After(watchdog):
		return "shutdown: the tailer did not finish after cancellation\n" + dump(), nil, nil, true
	}
	select {
	case <-w.drained:
	case <-time.After(watchdog):
		return "shutdown: the tailer's line channel was not closed\n" + dump(), nil, nil, true
	}
	w.mu.Lock()
	got = append([]string{}, w.got...)
	w.mu.Unlock()
	want = m.want
	if len(got) != len(want) {
		return fmt.Sprintf("%d lines delivered, %d expected", len(got), len(want)), got, want, false
	}
	for i := range got {
		if got[i] != want[i] {
			return fmt.Sprintf("line %d delivered as %q, expected %q", i, got[i], want[i]), got, want, false
		}
	}
	return "", got, want, false
}

func TestC16(t *testing.T) {
	r := ev.Start(t, "C16", "exploration")
	defer r.Finish()
	maxLen := ev.Pick(3, 4)
	r.Rule(fmt.Sprintf("every sequence of length <=%d over {append line, append fragment, append CRLF line, truncate, rename+create, copy+truncate, delete, recreate, poll-without-change} plus random sequences of length 12 (quick) / 40 (thorough), with and without content present before tailing begins, executed on the real filesystem against a real tailer.Tailer; after every step a logical barrier (harness wakers: every live stream is back at its waker; after delete the stream is gone; after recreate the pattern poll has run) so that the tailer has observed the step. Final delivered sequence == model's expected sequence (unique ids). Non-trivial: history with an append after a generation change or a fragment at a generation end; distinct by history.", maxLen))
	r.Assume("a truncate when nothing of the generation has been read yet is not a generation end (nothing to lose)", "steps on a non-existent file (other than recreate) are skipped", "only the final delivered sequence is compared (the forwarder may hold the last line at a barrier)")
	_ = io.EOF
	base, _ := os.MkdirTemp(ev.Scratch(), "c16")
	defer os.RemoveAll(base)
	var hists [][]string
	var rec func(p []string)
	rec = func(p []string) {
		if len(p) > 0 {
			hists = append(hists, append([]string{}, p...))
		}
		if len(p) == maxLen {
			return
		}
		for _, o := range ops {
			rec(append(p, o))
		}
	}
	rec(nil)
	r.Set("exhaustive_histories", len(hists))
	rng := ev.NewRNG(ev.Seed(), "c16")
	for i := 0; i < ev.Pick(300, 5000); i++ {
		g := rng.Sub(i)
		var h []string
		for k := 0; k < ev.Pick(12, 40); k++ {
			h = append(h, ev.PickOne(g, append(ops, "line", "line", "frag")))
		}
		hists = append(hists, h)
	}
	inconc := 0
	for i, h := range hists {
		pre := 0
		switch i % 5 {
		case 3:
			pre = 1
		case 4:
			pre = 2
		}
		what, got, want, inc := runHistory(base, i, h, pre)
		r.Eval(1)
		for _, o := range h {
			r.Count("steps_"+o, 1)
		}
		if inc {
			inconc++
			if strings.Contains(what, "did not end") || strings.Contains(what, "not tailed again") || strings.Contains(what, "expected back at the waker") {
				r.Violation(cls(what), map[string]any{"history": h, "preexisting_content": pre, "what": what})
			} else {
				r.Inconclusive(strings.SplitN(what, "\n", 2)[0])
			}
			if inconc > 3 {
				break
			}
			continue
		}
		if what != "" {
			r.Violation(cls(what), map[string]any{"history": h, "preexisting_content": pre, "what": what, "delivered": got, "expected": want})
			if r.Violations() > 12 {
				break
			}
			continue
		}
		nt := false
		genChange := false
		for k, o := range h {
			switch o {
			case "truncate", "rotate", "copytruncate", "delete":
				genChange = true
				if k > 0 && h[k-1] == "frag" {
					nt = true
				}
			case "line", "crlf", "frag", "fragcr", "lf":
				if genChange {
					nt = true
				}
			}
		}
		if nt {
			r.Distinct(strings.Join(h, ","))
			if i%997 == 5 {
				r.Sample(map[string]any{"history": h, "delivered": got})
			}
		}
		r.Count("lines_compared", len(want))
	}
}

func cls(w string) string {
	switch {
	case strings.Contains(w, "lines delivered"):
		return "line-lost-or-duplicated"
	case strings.Contains(w, "delivered as"):
		return "line-content-differs"
	case strings.Contains(w, "did not end"):
		return "stream-did-not-end-after-delete"
	case strings.Contains(w, "not tailed again"):
		return "recreated-file-not-tailed"
	}
	return "barrier-stuck"
}
