// C23 — formatting a program preserves its meaning.
// Monitor: AST comparison (harness-side normaliser over mtail's exported ast
// nodes) of P and Unparse(Check(Parse(P))), plus idempotence of the output.
package c23

import (
	"fmt"
	"os"
	"os/exec"
	"path/filepath"
	"runtime"
	"strings"
	"testing"

	"github.com/google/mtail/internal/runtime/compiler/ast"
	"github.com/google/mtail/internal/runtime/compiler/checker"
	"github.com/google/mtail/internal/runtime/compiler/parser"
	"github.com/google/mtail/verif/ev"
	"github.com/google/mtail/verif/gen"
)

// norm renders the meaning-bearing part of an AST: declarations (kind, name,
// hidden, exported name, keys, limit, buckets), statement structure,
// expression trees incl. literal kinds and values, patterns, strings.
// ConvExpr, the implicit MATCH wrapper and empty index lists are transparent.
func norm(n ast.Node) string {
	var b strings.Builder
	var w func(n ast.Node)
	list := func(ns []ast.Node) {
		for _, c := range ns {
			w(c)
		}
	}
	w = func(n ast.Node) {
		switch v := n.(type) {
		case nil:
			b.WriteString("nil ")
		case *ast.StmtList:
			b.WriteString("(block ")
			list(v.Children)
			b.WriteString(") ")
		case *ast.ExprList:
			b.WriteString("(list ")
			list(v.Children)
			b.WriteString(") ")
		case *ast.CondStmt:
			b.WriteString("(cond ")
			w(v.Cond)
			w(v.Truth)
			if v.Else != nil {
				b.WriteString("else ")
				w(v.Else)
			}
			b.WriteString(") ")
		case *ast.IDTerm:
			fmt.Fprintf(&b, "(id %q) ", v.Name)
		case *ast.CaprefTerm:
			fmt.Fprintf(&b, "(capref %q) ", v.Name)
		case *ast.BuiltinExpr:
			fmt.Fprintf(&b, "(call %s ", v.Name)
			if v.Args != nil {
				w(v.Args)
			}
			b.WriteString(") ")
		case *ast.BinaryExpr:
			fmt.Fprintf(&b, "(bin %s ", parser.Kind(v.Op))
			w(v.LHS)
			w(v.RHS)
			b.WriteString(") ")
		case *ast.UnaryExpr:
			if v.Op == parser.MATCH {
				w(v.Expr)
				return
			}
			fmt.Fprintf(&b, "(un %s ", parser.Kind(v.Op))
			w(v.Expr)
			b.WriteString(") ")
		case *ast.IndexedExpr:
			if el, ok := v.Index.(*ast.ExprList); ok && len(el.Children) == 0 {
				w(v.LHS)
				return
			}
			b.WriteString("(index ")
			w(v.LHS)
			w(v.Index)
			b.WriteString(") ")
		case *ast.VarDecl:
			fmt.Fprintf(&b, "(decl kind=%v name=%q hidden=%v as=%q keys=%q limit=%d buckets=%v) ", v.Kind, v.Name, v.Hidden, v.ExportedName, v.Keys, v.Limit, v.Buckets)
		case *ast.StringLit:
			fmt.Fprintf(&b, "(str %q) ", v.Text)
		case *ast.IntLit:
			fmt.Fprintf(&b, "(int %d) ", v.I)
		case *ast.FloatLit:
			fmt.Fprintf(&b, "(float %v) ", v.F)
		case *ast.PatternExpr:
			w(v.Expr)
		case *ast.PatternLit:
			fmt.Fprintf(&b, "(re %q) ", v.Pattern)
		case *ast.PatternFragment:
			b.WriteString("(const ")
			w(v.ID)
			w(v.Expr)
			b.WriteString(") ")
		case *ast.DecoDecl:
			fmt.Fprintf(&b, "(def %q ", v.Name)
			w(v.Block)
			b.WriteString(") ")
		case *ast.DecoStmt:
			fmt.Fprintf(&b, "(deco %q ", v.Name)
			w(v.Block)
			b.WriteString(") ")
		case *ast.NextStmt:
			b.WriteString("next ")
		case *ast.OtherwiseStmt:
			b.WriteString("otherwise ")
		case *ast.DelStmt:
			fmt.Fprintf(&b, "(del after=%v ", v.Expiry)
			w(v.N)
			b.WriteString(") ")
		case *ast.ConvExpr:
			w(v.N)
		case *ast.StopStmt:
			b.WriteString("stop ")
		case *ast.Error:
			fmt.Fprintf(&b, "(error %q) ", v.Spelling)
		default:
			fmt.Fprintf(&b, "(unknown %T) ", n)
		}
	}
	w(n)
	return b.String()
}

func parseCheck(name, src string) (ast.Node, error) {
	n, err := parser.Parse(name, strings.NewReader(src))
	if err != nil {
		return nil, err
	}
	return checker.Check(n, 0, 0)
}

func format(n ast.Node) (out string, panicked any) {
	defer func() {
		if r := recover(); r != nil {
			panicked = r
		}
	}()
	u := parser.Unparser{}
	return u.Unparse(n), nil
}

type witness struct {
	Program   string `json:"program"`
	Formatted string `json:"formatted"`
	What      string `json:"what"`
	Before    string `json:"ast_before,omitempty"`
	After     string `json:"ast_after,omitempty"`
}

// firstDiff returns a window around the first difference of two strings.
func firstDiff(a, b string) (string, string) {
	i := 0
	for i < len(a) && i < len(b) && a[i] == b[i] {
		i++
	}
	lo := max(0, i-60)
	return a[lo:min(len(a), i+100)], b[lo:min(len(b), i+100)]
}

// classify names the AST feature whose loss explains the difference.
func classify(a, b string) string {
	x, y := firstDiff(a, b)
	i := 0
	for i < len(x) && i < len(y) && x[i] == y[i] {
		i++
	}
	ctx := x[:i]
	switch {
	case strings.Contains(ctx[max(0, len(ctx)-40):], "hidden="):
		return "hidden-lost"
	case strings.Contains(ctx[max(0, len(ctx)-30):], "as="):
		return "exported-name-lost"
	case strings.Contains(ctx[max(0, len(ctx)-60):], "buckets="):
		return "bucket-bound-changed"
	case strings.HasSuffix(strings.TrimSpace(ctx), "(float") || strings.HasSuffix(ctx, "(") && strings.HasPrefix(x[i:], "float") != strings.HasPrefix(y[i:], "float"):
		return "float-literal-kind-changed"
	case strings.Contains(ctx[max(0, len(ctx)-12):], "(str "):
		return "string-literal-changed"
	case strings.Contains(ctx[max(0, len(ctx)-12):], "(re "):
		return "regex-changed"
	}
	return "expression-structure-changed"
}

func TestC23(t *testing.T) {
	r := ev.Start(t, "C23", "exploration")
	defer r.Finish()
	r.Rule("generated well-typed programs with the features the formatter must preserve turned up (sub-expressions that need parentheses at every pair of precedence levels, hidden / as / limit, tiny bucket bounds, integral float literals, strings with \\\" and \\\\, regexes with \\/, const fragments, decorators, del after); for each accepted program P: F = Unparse(Check(Parse(P))) must parse and check, normalised AST(F) == normalised AST(P), and Unparse(Check(Parse(F))) == F. Thorough tier also runs the cmd/mfmt binary built from /repo. Non-trivial: program contains at least one of {parenthesised override, hidden, as, bucket bound < 1e-4, integral float literal, escaped string, escaped regex}; distinct by program text.")
	r.Assume("ConvExpr nodes, the implicit MATCH wrapper and empty index lists are transparent; positions, types and symbols are ignored")
	n := ev.Pick(2000, 80000)
	rng := ev.NewRNG(ev.Seed(), "c23")
	var mfmt string
	if ev.Thorough() {
		mfmt = filepath.Join(ev.Scratch(), "mfmt")
		cmd := exec.Command("go", "build", "-o", mfmt, "./cmd/mfmt")
		cmd.Dir = ev.Repo()
		if out, err := cmd.CombinedOutput(); err != nil {
			r.Inconclusive("cannot build cmd/mfmt: " + string(out))
			mfmt = ""
		}
	}
	ev.Parallel(n, runtime.GOMAXPROCS(0), func(i int) {
		g := rng.Sub(i)
		p := gen.Generate(g, gen.Opts{Fmt: true, ElseOtherwise: true, Strptime: i%4 == 0})
		src := (&gen.Renderer{Full: i%2 == 1, IndexStyle: g.Intn(2)}).Render(p)
		name := fmt.Sprintf("p%d.mtail", i)
		a1, err := parseCheck(name, src)
		r.Eval(1)
		if err != nil {
			r.Count("rejected_by_checker", 1)
			return
		}
		n1 := norm(a1)
		f, pan := format(a1)
		w := witness{Program: src, Formatted: f}
		if pan != nil {
			w.What = fmt.Sprint("formatter panicked: ", pan)
			r.Violation("formatter-panic", w)
			return
		}
		a2, err := parseCheck(name, f)
		if err != nil {
			w.What = "formatted output does not parse/check: " + err.Error()
			r.Violation("output-rejected", w)
			return
		}
		if n2 := norm(a2); n2 != n1 {
			w.Before, w.After = firstDiff(n1, n2)
			w.What = "formatted program has a different AST"
			r.Violation(classify(n1, n2), w)
			return
		}
		f2, _ := format(a2)
		if f2 != f {
			w.What = "formatting the output again changes the text"
			w.After = f2
			r.Violation("not-idempotent", w)
			return
		}
		if mfmt != "" && i%40 == 0 {
			path := filepath.Join(ev.Scratch(), fmt.Sprintf("c23-%d.mtail", i))
			_ = os.WriteFile(path, []byte(src), 0o644)
			out, err := exec.Command(mfmt, "-prog", path, "-logtostderr").Output()
			_ = os.Remove(path)
			if err != nil || string(out) != f {
				w.What = fmt.Sprintf("cmd/mfmt output differs from the in-process formatter (err=%v)", err)
				w.After = string(out)
				r.Violation("mfmt-binary-differs", w)
				return
			}
			r.Count("mfmt_binary_runs", 1)
		}
		feats := 0
		for _, k := range []string{"hidden", "as"} {
			if p.Features[k] > 0 {
				feats++
				r.Count("programs_with_"+k, 1)
			}
		}
		if strings.Contains(src, "(") && strings.Contains(n1, "(bin") && (strings.Contains(src, ") *") || strings.Contains(src, "* (") || strings.Contains(src, ") /") || strings.Contains(src, "- (") || strings.Contains(src, ") <<") || strings.Contains(src, "(~") || strings.Contains(src, ") &") || strings.Contains(src, "% (") || strings.Contains(src, "** (")) {
			feats++
			r.Count("programs_with_precedence_override", 1)
		}
		if strings.Contains(src, `\"`) || strings.Contains(src, `\\`) {
			feats++
			r.Count("programs_with_escaped_string", 1)
		}
		if strings.Contains(src, `\/`) {
			feats++
			r.Count("programs_with_escaped_regex", 1)
		}
		if strings.Contains(src, "e-0") {
			feats++
			r.Count("programs_with_tiny_number", 1)
		}
		if feats > 0 {
			r.Distinct(src)
			if i < 4 && i%2 == 0 {
				r.Sample(map[string]any{"program": src, "formatted": f})
			}
		}
	})
	r.Floor("programs_with_precedence_override", 50)
	r.Floor("programs_with_hidden", 50)
	r.Floor("programs_with_escaped_string", 50)
}
