// C02 — constant folding never changes a program's results.
// Monitor: differential execution of the same source compiled by the real
// compiler with and without the optimisation pass, per-line snapshots and
// runtime-error bits compared; compile outcomes judged by the harness's own
// constant evaluator ("has a constant-zero divisor").
package c02

import (
	"fmt"
	"math"
	"runtime"
	"strings"
	"testing"

	"github.com/google/mtail/internal/runtime/compiler"
	"github.com/google/mtail/verif/ev"
	"github.com/google/mtail/verif/gen"
	"github.com/google/mtail/verif/mt"
)

var intB = []int64{0, 1, -1, 2, 3, 7, -7, 10, 63, 64, 1 << 31, 1 << 53, math.MaxInt64, math.MinInt64}
var floatB = []float64{0.0, 1.0, -1.0, 0.5, -0.5, 2.0, 2.5, 3.0, -7.0, 1e-9, 1e10, 1e300, -1e300, 0.1}
var ops = []string{"+", "-", "*", "/", "%", "**"}

// intOps only take Int operands (shifts by negative or >= 64 counts are
// checked runtime errors in the VM; a folder must reproduce that, not crash).
var intOps = []string{"<<", ">>", "&", "|", "^"}

func lit(isF bool, i int) gen.Expr {
	if isF {
		return &gen.FloatLit{V: floatB[i]}
	}
	return &gen.IntLit{V: intB[i]}
}

func typeOf(e gen.Expr) gen.Type {
	switch n := e.(type) {
	case *gen.IntLit:
		return gen.TInt
	case *gen.FloatLit:
		return gen.TFloat
	case *gen.Bin:
		return n.T
	case *gen.Capref:
		return n.T
	case *gen.Call:
		return n.T
	}
	return gen.TInt
}

func bin(op string, l, r gen.Expr) *gen.Bin {
	t := gen.TInt
	if typeOf(l) == gen.TFloat || typeOf(r) == gen.TFloat {
		t = gen.TFloat
	}
	return &gen.Bin{Op: op, L: l, R: r, T: t}
}

// constVal evaluates a constant sub-expression the way Go arithmetic does;
// ok=false if e is not constant. Only used to decide "divisor is a constant
// equal to zero".
func constVal(e gen.Expr) (isF bool, i int64, f float64, ok bool) {
	switch n := e.(type) {
	case *gen.IntLit:
		return false, n.V, 0, true
	case *gen.FloatLit:
		return true, 0, n.V, true
	case *gen.Bin:
		lf, li, lff, lok := constVal(n.L)
		rf, ri, rff, rok := constVal(n.R)
		if !lok || !rok {
			return false, 0, 0, false
		}
		if !lf && !rf {
			switch n.Op {
			case "+":
				return false, li + ri, 0, true
			case "-":
				return false, li - ri, 0, true
			case "*":
				return false, li * ri, 0, true
			case "/":
				if ri == 0 {
					return false, 0, 0, false
				}
				return false, li / ri, 0, true
			case "%":
				if ri == 0 {
					return false, 0, 0, false
				}
				return false, li % ri, 0, true
			case "**":
				return false, int64(math.Pow(float64(li), float64(ri))), 0, true
			}
		}
		a, b := lff, rff
		if !lf {
			a = float64(li)
		}
		if !rf {
			b = float64(ri)
		}
		switch n.Op {
		case "+":
			return true, 0, a + b, true
		case "-":
			return true, 0, a - b, true
		case "*":
			return true, 0, a * b, true
		case "/":
			return true, 0, a / b, true
		case "%":
			return true, 0, math.Mod(a, b), true
		case "**":
			return true, 0, math.Pow(a, b), true
		}
	}
	return false, 0, 0, false
}

// hasConstZeroDivisor reports whether some / or % in e has a constant divisor
// whose value is zero (the only legitimate reason for the optimiser to reject).
func hasConstZeroDivisor(e gen.Expr) bool {
	switch n := e.(type) {
	case *gen.Bin:
		if n.Op == "/" || n.Op == "%" {
			if isF, i, f, ok := constVal(n.R); ok && ((isF && f == 0) || (!isF && i == 0)) {
				return true
			}
		}
		return hasConstZeroDivisor(n.L) || hasConstZeroDivisor(n.R)
	case *gen.Call:
		for _, a := range n.Args {
			if hasConstZeroDivisor(a) {
				return true
			}
		}
	}
	return false
}

type witness struct {
	Program string   `json:"program"`
	Lines   []string `json:"lines,omitempty"`
	What    string   `json:"what"`
	Opt     string   `json:"optimised,omitempty"`
	Unopt   string   `json:"unoptimised,omitempty"`
}

// differential runs src both ways. exprs are the constant-bearing expressions
// of the program (for the zero-divisor judgement).
func differential(r *ev.Run, src string, exprs []gen.Expr, lines []string) (nontrivial bool) {
	defer func() {
		if p := recover(); p != nil {
			r.Violation("panic", witness{Program: src, Lines: lines, What: fmt.Sprintf("panic while compiling / running the two builds: %v", p)})
			nontrivial = false
		}
	}()
	zero := false
	for _, e := range exprs {
		if hasConstZeroDivisor(e) {
			zero = true
		}
	}
	po, errO := mt.Load(mt.UniqueName("c02o"), src, mt.VMOpts{})
	pu, errU := mt.Load(mt.UniqueName("c02u"), src, mt.VMOpts{}, compiler.DisableOptimisation())
	if po != nil {
		defer po.Close()
	}
	if pu != nil {
		defer pu.Close()
	}
	switch {
	case errO != nil && errU != nil:
		r.Count("both_reject", 1)
		if !zero {
			r.Count("both_reject_without_zero_divisor", 1)
		}
		return false
	case errO != nil:
		if zero {
			r.Count("opt_rejects_zero_divisor", 1)
			return false
		}
		r.Violation("opt-only-reject", witness{Program: src, What: "optimised compile rejects a program without a constant-zero divisor that the unoptimised compile accepts: " + errO.Error()})
		return false
	case errU != nil:
		r.Violation("unopt-only-reject", witness{Program: src, What: "unoptimised compile rejects but optimised accepts: " + errU.Error()})
		return false
	}
	for li, line := range lines {
		eo := po.Line("f", line)
		eu := pu.Line("f", line)
		do, du := mt.Dump(po.Obj.Metrics, false), mt.Dump(pu.Obj.Metrics, false)
		if eo != eu {
			r.Violation("error-bit", witness{Program: src, Lines: lines[:li+1], What: fmt.Sprintf("runtime error: optimised=%v unoptimised=%v", eo, eu), Opt: po.VM.RuntimeErrorString(), Unopt: pu.VM.RuntimeErrorString()})
			return false
		}
		if do != du {
			r.Violation("store-differs", witness{Program: src, Lines: lines[:li+1], What: "stores differ after the line", Opt: do, Unopt: du})
			return false
		}
	}
	r.Count("programs_compared", 1)
	return true
}

func assignProg(e gen.Expr) (*gen.Program, string) {
	m := &gen.Metric{Name: "g", Kind: "gauge", Type: typeOf(e)}
	pat := &gen.Pattern{Parts: []gen.PatPart{{Lit: "^"}}, Regex: "^"}
	p := &gen.Program{Metrics: []*gen.Metric{m}, Stmts: []gen.Stmt{&gen.Cond{C: &gen.PatCond{Pat: pat}, Then: []gen.Stmt{&gen.Assign{M: m, Op: "=", E: e}}}}}
	return p, (&gen.Renderer{}).Render(p)
}

// random constant-bearing expression: literals mixed with non-constant siblings
func (g *cgen) expr(depth int, wantFloat bool) gen.Expr {
	r := g.r
	if depth == 0 || r.Intn(4) == 0 {
		switch {
		case g.cap != nil && r.Intn(4) == 0 && (!wantFloat || g.cap.T == gen.TFloat):
			return g.cap
		case wantFloat && r.Intn(3) > 0:
			return &gen.FloatLit{V: ev.PickOne(r, floatB)}
		case wantFloat:
			return &gen.IntLit{V: ev.PickOne(r, intB)}
		default:
			return &gen.IntLit{V: ev.PickOne(r, intB)}
		}
	}
	op := ev.PickOne(r, ops)
	l := g.expr(depth-1, wantFloat && r.Bool())
	rr := g.expr(depth-1, wantFloat && r.Bool())
	if !wantFloat && typeOf(l) == gen.TInt && typeOf(rr) == gen.TInt && r.Intn(4) == 0 {
		op = ev.PickOne(r, intOps)
	}
	if wantFloat && typeOf(l) != gen.TFloat && typeOf(rr) != gen.TFloat {
		rr = &gen.FloatLit{V: ev.PickOne(r, floatB)}
	}
	return bin(op, l, rr)
}

type cgen struct {
	r   *ev.RNG
	cap *gen.Capref
}

func TestC02(t *testing.T) {
	r := ev.Start(t, "C02", "translation_validation")
	defer r.Finish()
	r.Rule("every program is compiled twice by the real compiler (optimisation on / DisableOptimisation) and run on the same lines; per-line store snapshot and runtime-error bit must agree. (a) exhaustive grid: 6 arithmetic operators x {Int,Float}^2 operand kinds + 5 shift/bitwise operators on Int x Int, x all pairs of boundary literals; (b) random programs with nested constant trees (depth<=4) in every expression position (assignment, +=, index key, comparison operand, builtin argument, settime) with non-constant siblings. Non-trivial: both compiles accepted and the program executed; distinct by program text.")
	r.Assume("'literal zero' is read as 'constant sub-expression whose value is zero' (lenient: 1/(2-2) may be rejected)", "only the runtime-error bit is compared, not the message (positions legitimately differ after folding)")

	// (a) exhaustive single-operator grid
	type cell struct {
		op     string
		lf, rf bool
		i, j   int
	}
	var cells []cell
	for _, op := range ops {
		for _, lf := range []bool{false, true} {
			for _, rf := range []bool{false, true} {
				for i := 0; i < 14; i++ {
					for j := 0; j < 14; j++ {
						cells = append(cells, cell{op, lf, rf, i, j})
					}
				}
			}
		}
	}
	for _, op := range intOps {
		for i := 0; i < 14; i++ {
			for j := 0; j < 14; j++ {
				cells = append(cells, cell{op, false, false, i, j})
			}
		}
	}
	ev.Parallel(len(cells), runtime.GOMAXPROCS(0), func(k int) {
		c := cells[k]
		e := bin(c.op, lit(c.lf, c.i), lit(c.rf, c.j))
		_, src := assignProg(e)
		if differential(r, src, []gen.Expr{e}, []string{"x"}) {
			r.Distinct(src)
		}
		r.Eval(1)
		r.Count("grid_cells", 1)
	})
	r.Set("grid", "exhaustive: 6 arithmetic ops x 4 operand-kind pairs x 14x14 boundary literal pairs + 5 shift/bitwise ops x Int x Int x 14x14 = 5684 single-operator programs")
	r.Sample(map[string]any{"grid_example": "gauge g\n/^/ {\n  g = 7 % 2.0\n}\n"})

	// (b) random programs
	n := ev.Pick(1500, 40000)
	rng := ev.NewRNG(ev.Seed(), "c02")
	ev.Parallel(n, runtime.GOMAXPROCS(0), func(i int) {
		rr := rng.Sub(i)
		pat := &gen.Pattern{Parts: []gen.PatPart{{Lit: `a=(\d+) c=(\d+\.\d+)`}}, Regex: `a=(\d+) c=(\d+\.\d+)`, Groups: []gen.Group{{T: gen.TInt}, {T: gen.TFloat}}}
		capI := &gen.Capref{Pat: pat, Idx: 1, T: gen.TInt}
		capF := &gen.Capref{Pat: pat, Idx: 2, T: gen.TFloat}
		gi := &gen.Metric{Name: "gi", Kind: "gauge", Type: gen.TInt, Index: 0}
		gf := &gen.Metric{Name: "gf", Kind: "gauge", Type: gen.TFloat, Index: 1}
		ck := &gen.Metric{Name: "ck", Kind: "counter", Type: gen.TInt, Keys: []string{"k"}, KeyTypes: []gen.Type{gen.TInt}, Index: 2}
		cf := &gen.Metric{Name: "cf", Kind: "counter", Type: gen.TFloat, Keys: []string{"k"}, KeyTypes: []gen.Type{gen.TFloat}, Index: 3}
		tm := &gen.Metric{Name: "ts", Kind: "gauge", Type: gen.TInt, Index: 4}
		var exprs []gen.Expr
		mk := func(f bool, useCap bool) gen.Expr {
			g := &cgen{r: rr}
			if useCap {
				if f && rr.Bool() {
					g.cap = capF
				} else {
					g.cap = capI
				}
			}
			e := g.expr(rr.Range(1, 4), f)
			exprs = append(exprs, e)
			return e
		}
		var body []gen.Stmt
		for k := 0; k < rr.Range(2, 6); k++ {
			switch rr.Intn(8) {
			case 0:
				body = append(body, &gen.Assign{M: gi, Op: "=", E: mk(false, rr.Bool())})
			case 1:
				body = append(body, &gen.Assign{M: gf, Op: "=", E: mk(true, rr.Bool())})
			case 2:
				body = append(body, &gen.Assign{M: ck, Keys: []gen.Expr{mk(false, false)}, Op: "+=", E: mk(false, rr.Bool())})
			case 3:
				body = append(body, &gen.Assign{M: cf, Keys: []gen.Expr{mk(true, false)}, Op: "+=", E: mk(true, rr.Bool())})
			case 4:
				op := ev.PickOne(rr, []string{"<", "<=", ">", ">=", "==", "!="})
				c := &gen.Bin{Op: op, L: mk(rr.Bool(), rr.Bool()), R: mk(rr.Bool(), false), T: gen.TBool}
				body = append(body, &gen.Cond{C: c, Then: []gen.Stmt{&gen.IncDec{M: gi, Op: "++"}}, HasElse: true, Else: []gen.Stmt{&gen.IncDec{M: gi, Op: "--"}}})
			case 5:
				body = append(body, &gen.ExprStmt{E: &gen.Call{Name: "settime", Args: []gen.Expr{mk(false, false)}}},
					&gen.Assign{M: tm, Op: "=", E: &gen.Call{Name: "timestamp", T: gen.TInt}})
			case 6:
				body = append(body, &gen.Assign{M: gf, Op: "=", E: &gen.Call{Name: "float", Args: []gen.Expr{mk(false, false)}, T: gen.TFloat}})
			case 7:
				body = append(body, &gen.Assign{M: gi, Op: "=", E: &gen.Call{Name: "strtol", Args: []gen.Expr{&gen.StrLit{S: "11"}, mk(false, false)}, T: gen.TInt}})
			}
		}
		used := map[*gen.Metric]bool{}
		for _, s := range body {
			switch n := s.(type) {
			case *gen.Assign:
				used[n.M] = true
			case *gen.Cond:
				used[gi] = true
			case *gen.IncDec:
				used[n.M] = true
			}
		}
		p := &gen.Program{}
		for _, m := range []*gen.Metric{gi, gf, ck, cf, tm} {
			if used[m] {
				m.Index = len(p.Metrics)
				p.Metrics = append(p.Metrics, m)
			}
		}
		p.Stmts = []gen.Stmt{&gen.Cond{C: &gen.PatCond{Pat: pat}, Then: body}}
		src := (&gen.Renderer{Full: rr.Bool()}).Render(p)
		lines := []string{"a=0 c=0.0", "a=3 c=1.5", "a=7 c=0.25", "zzz", "a=9223372036854775807 c=123.5"}
		if differential(r, src, exprs, lines) {
			r.Distinct(src)
			if i < 3 {
				r.Sample(map[string]any{"program": src})
			}
		}
		r.Eval(1)
		r.Count("random_programs", 1)
		_ = strings.TrimSpace
	})
	r.Set("programs", int(r.Get("programs_compared")))
	r.Set("disagreements_checked", int(r.Get("programs_compared")))
	r.Floor("programs_compared", 1000)
	r.Floor("opt_rejects_zero_divisor", 5)
}
