// C08 — distinct label tuples always name distinct data.
// Monitor: reference map keyed by an injective (length-prefixed) tuple encoding;
// datum identity (pointer) and per-tuple observations compared after every step.
package c08

import (
	"fmt"
	"strings"
	"testing"
	"time"

	"github.com/google/mtail/internal/metrics"
	"github.com/google/mtail/internal/metrics/datum"
	"github.com/google/mtail/verif/ev"
)

func inj(t []string) string {
	var b strings.Builder
	for _, s := range t {
		fmt.Fprintf(&b, "%d:%s,", len(s), s)
	}
	return b.String()
}

// naive encodings under which a non-injective implementation is likely to collide
func naiveDash(t []string) string { return strings.Join(t, "-") }
func naiveEscDash(t []string) string {
	var b strings.Builder
	for _, s := range t {
		b.WriteString(strings.ReplaceAll(s, "-", "\\-"))
		b.WriteString("-")
	}
	return b.String()
}
func naiveConcat(t []string) string { return strings.Join(t, "") }
func naiveNul(t []string) string    { return strings.Join(t, "\x00") }
func naiveComma(t []string) string  { return strings.Join(t, ",") }
func naiveQuoted(t []string) string { return fmt.Sprintf("%v", t) }

var naive = []func([]string) string{naiveDash, naiveEscDash, naiveConcat, naiveNul, naiveComma, naiveQuoted, naiveRunes, naiveLower}

// naiveRunes: an encoding that walks the labels rune by rune (invalid UTF-8
// bytes all become U+FFFD); naiveLower: one that folds case.
func naiveRunes(t []string) string {
	var b strings.Builder
	for _, s := range t {
		for _, r := range s {
			b.WriteRune(r)
		}
		b.WriteString("\x00")
	}
	return b.String()
}

func naiveLower(t []string) string { return strings.ToLower(strings.Join(t, "\x00")) }

func keys(n int) []string {
	k := make([]string, n)
	for i := range k {
		k[i] = fmt.Sprintf("k%d", i)
	}
	return k
}

func words(alpha []string, maxLen int) []string {
	out := []string{""}
	prev := []string{""}
	for l := 1; l <= maxLen; l++ {
		var cur []string
		for _, p := range prev {
			for _, a := range alpha {
				cur = append(cur, p+a)
			}
		}
		out = append(out, cur...)
		prev = cur
	}
	return out
}

func tuples(comps []string, arity int) [][]string {
	out := [][]string{{}}
	for i := 0; i < arity; i++ {
		var next [][]string
		for _, t := range out {
			for _, c := range comps {
				n := append(append([]string{}, t...), c)
				next = append(next, n)
			}
		}
		out = next
	}
	return out
}

type witness struct {
	Arity int      `json:"arity"`
	T1    []string `json:"t1"`
	T2    []string `json:"t2,omitempty"`
	What  string   `json:"what"`
}

func q(t []string) []string {
	o := make([]string, len(t))
	for i, s := range t {
		o[i] = fmt.Sprintf("%q", s)
	}
	return o
}

// bulk: create every tuple in one metric; identity must be a bijection with tuples.
func bulk(r *ev.Run, arity int, ts [][]string) {
	m := metrics.NewMetric("m", "prog", metrics.Gauge, metrics.Int, keys(arity)...)
	byPtr := map[datum.Datum][]string{}
	ds := make([]datum.Datum, len(ts))
	for i, t := range ts {
		d, err := m.GetDatum(t...)
		if err != nil {
			r.Violation("getdatum-error", witness{arity, q(t), nil, err.Error()})
			return
		}
		if o, ok := byPtr[d]; ok && inj(o) != inj(t) {
			r.Violation("shared-datum", witness{arity, q(o), q(t), "two distinct tuples returned the same datum from GetDatum"})
			return
		}
		byPtr[d] = t
		ds[i] = d
		datum.SetInt(d, int64(i), time.Unix(int64(i+1), 0))
	}
	r.Count("bulk_tuples_created", len(ts))
	if len(m.LabelValues) != len(ts) {
		r.Violation("bulk-count", witness{arity, nil, nil, fmt.Sprintf("%d tuples created, %d label values stored", len(ts), len(m.LabelValues))})
		return
	}
	for i, t := range ts {
		d, _ := m.GetDatum(t...)
		if d != ds[i] {
			r.Violation("unstable-datum", witness{arity, q(t), nil, "second GetDatum returned a different datum"})
			return
		}
		if datum.GetInt(d) != int64(i) {
			r.Violation("value-clobbered", witness{arity, q(t), nil, fmt.Sprintf("value %d want %d", datum.GetInt(d), i)})
			return
		}
		lv := m.FindLabelValueOrNil(t)
		if lv == nil || lv.Value != d || inj(lv.Labels) != inj(t) {
			r.Violation("find-mismatch", witness{arity, q(t), nil, "FindLabelValueOrNil does not return the tuple's own label value"})
			return
		}
	}
	// remove every second tuple; the others must be untouched
	for i, t := range ts {
		if i%2 == 0 {
			if err := m.RemoveDatum(t...); err != nil {
				r.Violation("remove-error", witness{arity, q(t), nil, err.Error()})
				return
			}
		}
	}
	for i, t := range ts {
		lv := m.FindLabelValueOrNil(t)
		if i%2 == 0 && lv != nil {
			r.Violation("remove-ineffective", witness{arity, q(t), nil, "tuple still found after RemoveDatum"})
			return
		}
		if i%2 == 1 && (lv == nil || lv.Value != ds[i] || datum.GetInt(lv.Value) != int64(i)) {
			r.Violation("remove-touched-other", witness{arity, q(t), nil, "tuple lost or changed by removal of a different tuple"})
			return
		}
	}
	if want := len(ts) / 2; len(m.LabelValues) != want {
		r.Violation("bulk-count-after-remove", witness{arity, nil, nil, fmt.Sprintf("%d label values, want %d", len(m.LabelValues), want)})
	}
}

// pairOps: the full hostile op sequence on a fresh metric for one pair.
func pairOps(r *ev.Run, arity int, t1, t2 []string) bool {
	bad := func(class, what string) bool {
		r.Violation(class, witness{arity, q(t1), q(t2), what})
		return false
	}
	m := metrics.NewMetric("m", "prog", metrics.Gauge, metrics.Int, keys(arity)...)
	d1, e1 := m.GetDatum(t1...)
	d2, e2 := m.GetDatum(t2...)
	if e1 != nil || e2 != nil {
		return bad("getdatum-error", fmt.Sprint(e1, e2))
	}
	same := inj(t1) == inj(t2)
	if same != (d1 == d2) {
		return bad("shared-datum", fmt.Sprintf("tuples equal=%v but datum identical=%v", same, d1 == d2))
	}
	if same {
		if len(m.LabelValues) != 1 {
			return bad("dup-on-equal", "equal tuples produced two label values")
		}
		return true
	}
	datum.SetInt(d1, 111, time.Unix(1, 0))
	datum.SetInt(d2, 222, time.Unix(2, 0))
	if datum.GetInt(d1) != 111 || datum.GetInt(d2) != 222 {
		return bad("value-clobbered", "set on one tuple visible through the other")
	}
	if l1, l2 := m.FindLabelValueOrNil(t1), m.FindLabelValueOrNil(t2); l1 == nil || l2 == nil || l1 == l2 || l1.Value != d1 || l2.Value != d2 {
		return bad("find-mismatch", "FindLabelValueOrNil returned wrong/shared label value")
	}
	if err := m.ExpireDatum(time.Hour, t1...); err != nil {
		return bad("expire-error", err.Error())
	}
	if m.FindLabelValueOrNil(t2).Expiry != 0 || m.FindLabelValueOrNil(t1).Expiry != time.Hour {
		return bad("expire-touched-other", "ExpireDatum(t1) changed t2's expiry (or not t1's)")
	}
	// enumeration must list both with their own labels
	c := make(chan *metrics.LabelSet)
	go m.EmitLabelSets(c)
	seen := map[string]datum.Datum{}
	for ls := range c {
		t := make([]string, arity)
		for i, k := range m.Keys {
			t[i] = ls.Labels[k]
		}
		seen[inj(t)] = ls.Datum
	}
	if len(seen) != 2 || seen[inj(t1)] != d1 || seen[inj(t2)] != d2 {
		return bad("emit-mismatch", "EmitLabelSets does not list both tuples with their own datum")
	}
	if err := m.RemoveDatum(t1...); err != nil {
		return bad("remove-error", err.Error())
	}
	if m.FindLabelValueOrNil(t1) != nil {
		return bad("remove-ineffective", "t1 still present after RemoveDatum(t1)")
	}
	if l2 := m.FindLabelValueOrNil(t2); l2 == nil || l2.Value != d2 || datum.GetInt(l2.Value) != 222 || len(m.LabelValues) != 1 || m.LabelValues[0] != l2 {
		return bad("remove-touched-other", "RemoveDatum(t1) removed or changed t2")
	}
	d1b, _ := m.GetDatum(t1...)
	if d1b == d2 {
		return bad("shared-datum", "re-created t1 aliases t2")
	}
	if err := m.RemoveDatum(t2...); err != nil {
		return bad("remove-error", err.Error())
	}
	if l1 := m.FindLabelValueOrNil(t1); l1 == nil || l1.Value != d1b || len(m.LabelValues) != 1 {
		return bad("remove-touched-other", "RemoveDatum(t2) removed or changed re-created t1")
	}
	return true
}

func suspicious(t1, t2 []string) bool {
	for _, f := range naive {
		if f(t1) == f(t2) {
			return true
		}
	}
	return false
}

func TestC08(t *testing.T) {
	r := ev.Start(t, "C08", "exploration")
	defer r.Finish()
	r.Rule("bulk: every tuple of the enumerated universe created in one metric, datum identity must be a bijection; pairs: full op sequence (create, set, find, expire, emit, remove, re-create) on a fresh metric per pair. A pair is non-trivial when the tuples differ but coincide under at least one naive key encoding (dash-join, dash-escape-only, concat, NUL-join, comma-join, %v); distinct by the injective encoding of the pair.")
	r.Assume("Go map and pointer equality are the reference", "operations are single-threaded here (C11 covers concurrency)")

	small := words([]string{"-", "\\", "a"}, 3) // 40 components
	// exhaustive part: arity 1 and 2 over components of length <= 3
	for arity := 1; arity <= 2; arity++ {
		ts := tuples(small, arity)
		bulk(r, arity, ts)
		r.Eval(len(ts))
		// group by each naive encoding; run pairOps inside every collision class
		for _, f := range naive {
			groups := map[string][][]string{}
			for _, tt := range ts {
				groups[f(tt)] = append(groups[f(tt)], tt)
			}
			for _, g := range groups {
				if len(g) < 2 {
					continue
				}
				for i := 0; i < len(g); i++ {
					for j := 0; j < len(g); j++ {
						if i == j {
							continue
						}
						if r.Violations() > 20 {
							return
						}
						pairOps(r, arity, g[i], g[j])
						r.Eval(1)
						r.Count("pairs_suspicious", 1)
						r.Distinct(inj(g[i]) + "|" + inj(g[j]))
					}
				}
			}
		}
	}
	// the same over raw bytes: labels are byte strings taken from log lines, not
	// necessarily valid UTF-8 (Latin-1 logs), and differ in case only
	bytesAlpha := words([]string{"\xe9", "\xe8", "\xc3", "\xa9", "\xff", "\x80", "e", "E", "é"}, 2)
	{ // "\xc3"+"\xa9" and "é" are the same string
		seen := map[string]bool{}
		var uniq []string
		for _, w := range bytesAlpha {
			if !seen[w] {
				seen[w] = true
				uniq = append(uniq, w)
			}
		}
		bytesAlpha = uniq
	}
	for arity := 1; arity <= 2; arity++ {
		ts := tuples(bytesAlpha, arity)
		bulk(r, arity, ts)
		r.Eval(len(ts))
		r.Count("byte_alphabet_tuples", len(ts))
	}
	for _, f := range []func([]string) string{naiveRunes, naiveLower} {
		ts := tuples(bytesAlpha, 1)
		groups := map[string][][]string{}
		for _, tt := range ts {
			groups[f(tt)] = append(groups[f(tt)], tt)
		}
		for _, g := range groups {
			for i := 0; i < len(g) && i < 4; i++ {
				for j := 0; j < len(g) && j < 4; j++ {
					if i != j && r.Violations() <= 20 {
						pairOps(r, 1, g[i], g[j])
						r.Eval(1)
						r.Count("pairs_suspicious", 1)
						r.Distinct(inj(g[i]) + "|" + inj(g[j]))
					}
				}
			}
		}
	}
	r.Set("exhaustive_universe", "arity 1-2, components of length <=3 over {'-','\\\\','a'} and of length <=2 over raw bytes {E9,E8,C3,A9,FF,80,'e','E','é'}: all tuples in one metric (identity bijection => all ordered pairs), plus per-pair op sequences for every pair colliding under a naive encoding")
	r.Exhaustive(false)

	// arity 3-4 and the wider adversarial alphabet: random pairs biased to collisions
	wide := []string{"-", "\\", "a", "", "\\-", "-\\", "\xff", "\x00", "é", "\\\\", "--", "a-", "-a", ",", " ", "\""}
	rng := ev.NewRNG(ev.Seed(), "c08")
	n := ev.Pick(20000, 400000)
	mkTuple := func(arity int) []string {
		t := make([]string, arity)
		for i := range t {
			k := rng.Intn(3)
			for j := 0; j <= k; j++ {
				if rng.Intn(4) > 0 {
					t[i] += ev.PickOne(rng, wide)
				}
			}
		}
		return t
	}
	// mutate t into a different tuple that tends to collide under naive encodings:
	// move bytes across component boundaries.
	shift := func(t []string) []string {
		o := append([]string{}, t...)
		if len(o) < 2 {
			o[0] = o[0] + ev.PickOne(rng, wide)
			return o
		}
		i := rng.Intn(len(o) - 1)
		joined := o[i] + "-" + o[i+1]
		var cuts []int
		for p := 0; p < len(joined); p++ {
			if joined[p] == '-' {
				cuts = append(cuts, p)
			}
		}
		c := ev.PickOne(rng, cuts)
		o[i], o[i+1] = joined[:c], joined[c+1:]
		return o
	}
	samples := 0
	for i := 0; i < n; i++ {
		arity := 1 + rng.Intn(4)
		t1 := mkTuple(arity)
		var t2 []string
		switch rng.Intn(3) {
		case 0:
			t2 = mkTuple(arity)
		case 1:
			t2 = shift(t1)
		default:
			t2 = append([]string{}, t1...)
			j := rng.Intn(arity)
			t2[j] = strings.ReplaceAll(t2[j], "\\-", "-")
			if inj(t2) == inj(t1) {
				t2[j] += "\\"
				if j+1 < arity {
					t2[j+1] = strings.TrimPrefix(t2[j+1], "\\")
				}
			}
		}
		if !pairOps(r, arity, t1, t2) && r.Violations() > 20 {
			break
		}
		r.Eval(1)
		r.Count(fmt.Sprintf("pairs_arity%d", arity), 1)
		if inj(t1) != inj(t2) && suspicious(t1, t2) {
			r.Count("pairs_suspicious", 1)
			r.Distinct(inj(t1) + "|" + inj(t2))
			if samples < 4 {
				samples++
				r.Sample(map[string]any{"arity": arity, "t1": q(t1), "t2": q(t2)})
			}
		}
		if inj(t1) == inj(t2) {
			r.Count("pairs_equal", 1)
		}
	}
	// bulk for arity 3 and 4 over a smaller component set
	comps3 := []string{"", "-", "\\", "a", "\\-", "-\\", "a-", "\xff"}
	bulk(r, 3, tuples(comps3, 3))
	comps4 := []string{"", "-", "\\", "\\-", "-\\"}
	bulk(r, 4, tuples(comps4, 4))
	r.Floor("pairs_suspicious", 100)
}
