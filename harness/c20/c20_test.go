//go:build verif

// C20 — lines reach each program in order, exactly once, across reloads.
// Monitor: offline interval-order checker over the hook event log
// {fanout(seq), reload(phase), line_start/line_end(vmID, seq)} plus the
// behavioural witness (a gauge every line overwrites with its sequence number).
package c20

import (
	"fmt"
	"strconv"
	"strings"
	"sync"
	"sync/atomic"
	"testing"
	"time"

	"github.com/google/mtail/internal/logline"
	"github.com/google/mtail/internal/metrics"
	"github.com/google/mtail/internal/metrics/datum"
	mrt "github.com/google/mtail/internal/runtime"
	"github.com/google/mtail/internal/runtime/vm"
	"github.com/google/mtail/verif/ev"
)

type event struct {
	T     int64  `json:"t"` // logical clock
	Kind  string `json:"kind"`
	VM    uint64 `json:"vm,omitempty"`
	Seq   int    `json:"seq,omitempty"`
	Phase string `json:"phase,omitempty"`
}

type recorder struct {
	mu     sync.Mutex
	clock  int64
	events []event
	prog   string
	delay  func(vmID uint64, seq int) time.Duration
	yield  func(phase string)
}

func (r *recorder) add(e event) {
	r.mu.Lock()
	r.clock++
	e.T = r.clock
	r.events = append(r.events, e)
	r.mu.Unlock()
}

var cur atomic.Pointer[recorder]

func seqOf(l *logline.LogLine) int {
	n, err := strconv.Atoi(strings.TrimSpace(l.Line))
	if err != nil {
		return -1
	}
	return n
}

const progV = `gauge g
counter lines
# version %d
/^(\d+)$/ {
  g = $1
  lines++
}
`

type verdict struct {
	what    string
	overlap int // reloads where the old version was still busy when the next line was fanned out
}

// analyse is the offline checker.
func analyse(evs []event, nlines int) (string, int) {
	starts := map[int][]event{}
	ends := map[int]int64{}
	startT := map[int]int64{}
	for _, e := range evs {
		switch e.Kind {
		case "line_start":
			starts[e.Seq] = append(starts[e.Seq], e)
			if _, ok := startT[e.Seq]; !ok {
				startT[e.Seq] = e.T
			}
		case "line_end":
			ends[e.Seq] = e.T
		}
	}
	for s := 0; s < nlines; s++ {
		if len(starts[s]) != 1 {
			var vms []uint64
			for _, e := range starts[s] {
				vms = append(vms, e.VM)
			}
			return fmt.Sprintf("line %d was processed %d times (by VMs %v): each line must be processed by exactly one version", s, len(starts[s]), vms), 0
		}
	}
	busy := 0
	for s := 0; s+1 < nlines; s++ {
		// line s+1 must not start before line s ended
		if startT[s+1] < ends[s] {
			return fmt.Sprintf("line %d started (VM %d, t=%d) before line %d ended (VM %d, t=%d): two versions executed concurrently, effects are not in arrival order", s+1, starts[s+1][0].VM, startT[s+1], s, starts[s][0].VM, ends[s]), 0
		}
	}
	// how often was the old version still busy when the next line was fanned out?
	fan := map[int]int64{}
	for _, e := range evs {
		if e.Kind == "fanout" {
			fan[e.Seq] = e.T
		}
	}
	for s := 0; s+1 < nlines; s++ {
		if starts[s][0].VM != starts[s+1][0].VM && fan[s+1] < ends[s] {
			busy++
		}
	}
	return "", busy
}

func TestC20(t *testing.T) {
	r := ev.Start(t, "C20", "exploration")
	defer r.Finish()
	r.Rule("one program (gauge g = $seq; counter lines++) on a real runtime.Runtime; lines 0..N-1 pushed back to back; a reloader alternates two source versions at PRNG-chosen points; PRNG-chosen line executions are stretched at the verif line hook (by 1-8 ms; in the last run one line is held for 1.6 s, in the thorough tier also 6 s and 31 s, with a reload requested meanwhile) and the reload hook yields between closing the old version's channel and starting the new one. The hook event log is checked offline: every fanned-out line has exactly one line_start, line k+1 never starts before line k ended, the gauge ends at the last line's sequence number and the counter at N. Non-trivial: a run in which >=1 reload found the old version still busy when the next line was fanned out; distinct by run index.")
	r.Assume("schedules are provoked (delays at hooks, many runs), not enumerated; the log's logical clock is one mutex-protected counter")
	lh := func(id uint64, name string, l *logline.LogLine, phase int) {
		rec := cur.Load()
		if rec == nil || name != rec.prog {
			return
		}
		s := seqOf(l)
		if phase == 0 {
			rec.add(event{Kind: "line_start", VM: id, Seq: s})
			if d := rec.delay(id, s); d > 0 {
				time.Sleep(d)
			}
		} else {
			rec.add(event{Kind: "line_end", VM: id, Seq: s})
		}
	}
	fh := func(l *logline.LogLine) {
		if rec := cur.Load(); rec != nil {
			rec.add(event{Kind: "fanout", Seq: seqOf(l)})
		}
	}
	rh := func(name, phase string, id uint64) {
		if rec := cur.Load(); rec != nil && name == rec.prog {
			rec.add(event{Kind: "reload", VM: id, Phase: phase})
			rec.yield(phase)
		}
	}
	vm.VerifLineHook.Store(&lh)
	mrt.VerifFanoutHook.Store(&fh)
	mrt.VerifReloadHook.Store(&rh)
	defer func() {
		vm.VerifLineHook.Store(nil)
		mrt.VerifFanoutHook.Store(nil)
		mrt.VerifReloadHook.Store(nil)
	}()
	runs := ev.Pick(40, 1500)
	rng := ev.NewRNG(ev.Seed(), "c20")
	totalReloads, totalBusy := 0, 0
	for run := 0; run < runs; run++ {
		g := rng.Sub(run)
		prog := fmt.Sprintf("c20_%d.mtail", run)
		nlines := g.Range(30, 80)
		slow := map[int]time.Duration{}
		for s := 0; s < nlines; s++ {
			if g.Intn(3) == 0 {
				slow[s] = time.Duration(g.Range(1, 8)) * time.Millisecond
			}
		}
		// the last run(s): one line is held for far longer than any reload
		// should be willing to wait (1.6 s; thorough also 6 s and 31 s), with a
		// reload requested while it executes
		if hold := map[int]time.Duration{runs - 1: 1600 * time.Millisecond, runs - 2: thoroughHold(6 * time.Second), runs - 3: thoroughHold(31 * time.Second)}[run]; hold > 0 {
			at := nlines / 2
			slow[at] = hold
			longHoldReloadAt = at + 1
			r.Count("runs_with_a_line_held_for_seconds", 1)
		} else {
			longHoldReloadAt = -1
		}
		rec := &recorder{prog: prog}
		rec.delay = func(id uint64, seq int) time.Duration { return slow[seq] }
		yields := make([]time.Duration, 64)
		for k := range yields {
			yields[k] = time.Duration(g.Intn(3)) * time.Millisecond
		}
		var yi atomic.Int64
		rec.yield = func(phase string) {
			if phase == "closed-old" {
				time.Sleep(yields[int(yi.Add(1))%len(yields)])
			}
		}
		cur.Store(rec)
		store := metrics.NewStore()
		lines := make(chan *logline.LogLine)
		var wg sync.WaitGroup
		rt, err := mrt.New(lines, &wg, "", store)
		if err != nil {
			t.Fatal(err)
		}
		version := 0
		if err := rt.CompileAndRun(prog, strings.NewReader(fmt.Sprintf(progV, version))); err != nil {
			t.Fatal(err)
		}
		reloadAt := map[int]bool{}
		for k := 0; k < g.Range(3, 8); k++ {
			reloadAt[g.Range(1, nlines-1)] = true
		}
		if longHoldReloadAt > 0 {
			reloadAt[longHoldReloadAt] = true
		}
		r.Guard(fmt.Sprintf("run %d: feeding the lines, the reloads, and runtime shutdown after the line channel was closed", run), func() {
			var rwg sync.WaitGroup
			for s := 0; s < nlines; s++ {
				if reloadAt[s] {
					version++
					v := version
					rwg.Add(1)
					// the reload races with the lines that follow
					go func() {
						defer rwg.Done()
						src := fmt.Sprintf(progV, v)
						retype := run%3 == 2 && v%2 == 1
						if retype {
							// a version that changes the KIND of a metric the program
							// exports: whether such a reload is accepted or refused, the
							// lines must reach exactly one version, in order
							src = strings.Replace(src, "counter lines", "gauge lines", 1)
						}
						if err := rt.CompileAndRun(prog, strings.NewReader(src)); err != nil && !retype {
							t.Error(err)
						}
					}()
					if g.Bool() {
						time.Sleep(time.Duration(g.Intn(2000)) * time.Microsecond)
					}
				}
				lines <- logline.New(nil, "log", strconv.Itoa(s))
			}
			rwg.Wait()
			close(lines)
			wg.Wait()
		}, "vm.(*VM).Run", "runtime.(*Runtime).CompileAndRun")
		cur.Store(nil)
		rec.mu.Lock()
		evs := append([]event{}, rec.events...)
		rec.mu.Unlock()
		r.Eval(1)
		totalReloads += len(reloadAt)
		what, busy := analyse(evs, nlines)
		totalBusy += busy
		var gv, cv int64 = -1, -1
		if m := store.FindMetricOrNil("g", prog); m != nil {
			if d, err := m.GetDatum(); err == nil {
				gv = datum.GetInt(d)
			}
		}
		if m := store.FindMetricOrNil("lines", prog); m != nil {
			if d, err := m.GetDatum(); err == nil {
				cv = datum.GetInt(d)
			}
		}
		if what == "" && gv != int64(nlines-1) {
			what = fmt.Sprintf("gauge ends at %d but the last line carried %d: effects were not applied in arrival order", gv, nlines-1)
		}
		if what == "" && cv != int64(nlines) {
			what = fmt.Sprintf("counter ends at %d after %d lines", cv, nlines)
		}
		if what != "" {
			tail := evs
			if len(tail) > 400 {
				tail = tail[len(tail)-400:]
			}
			r.Violation(cls(what), map[string]any{"run": run, "lines": nlines, "reload_before_lines": keys(reloadAt), "what": what, "event_log_tail": tail})
			if r.Violations() > 5 {
				break
			}
			continue
		}
		if busy > 0 {
			r.Distinct(fmt.Sprint(run))
		}
		if run == 0 {
			r.Sample(map[string]any{"lines": nlines, "reload_before_lines": keys(reloadAt), "events_recorded": len(evs), "first_events": evs[:min(12, len(evs))]})
		}
		r.Count("events_recorded", len(evs))
	}
	r.Count("reloads", totalReloads)
	r.Count("reloads_with_old_version_busy_at_next_fanout", totalBusy)
	if r.Violations() == 0 {
		r.Floor("reloads_with_old_version_busy_at_next_fanout", int64(ev.Pick(10, 200)))
	}
}

var longHoldReloadAt = -1

// thoroughHold returns d in the thorough tier and 0 (no such run) otherwise.
func thoroughHold(d time.Duration) time.Duration {
	if ev.Thorough() {
		return d
	}
	return 0
}

func keys(m map[int]bool) []int {
	var out []int
	for k := range m {
		out = append(out, k)
	}
	return out
}

func cls(w string) string {
	switch {
	case strings.Contains(w, "was processed"):
		return "not-exactly-once"
	case strings.Contains(w, "before line"):
		return "versions-overlap"
	case strings.Contains(w, "gauge ends"):
		return "gauge-not-last"
	}
	return "counter-wrong"
}
