//go:build verif

// C11 — concurrent processing, export, reload and GC are race-free.
// Monitors: (1) the Go race detector in exploration mode (reports read back
// from its log, filtered to mtail frames, de-duplicated); (2) conservation of
// counter increments; (3) offline checks over recorded scrape logs (monotone
// counters, gauge values that were actually written, untorn histograms);
// (4) porcupine linearizability of single data under concurrent clients.
package c11

import (
	"bytes"
	"context"
	"encoding/json"
	"fmt"
	"net/http/httptest"
	"os"
	"path/filepath"
	"regexp"
	"runtime"
	"sort"
	"strconv"
	"strings"
	"sync"
	"sync/atomic"
	"testing"
	"time"

	"github.com/anishathalye/porcupine"
	"github.com/google/mtail/internal/exporter"
	"github.com/google/mtail/internal/logline"
	"github.com/google/mtail/internal/metrics"
	"github.com/google/mtail/internal/metrics/datum"
	mrt "github.com/google/mtail/internal/runtime"
	"github.com/google/mtail/internal/runtime/code"
	"github.com/google/mtail/internal/runtime/vm"
	"github.com/google/mtail/verif/ev"
	"github.com/prometheus/common/expfmt"
)

const prog1 = `counter lines_total
counter by_word by w
gauge last
histogram h buckets 1, 10, 100
/^(\w+) (\d+)$/ {
  lines_total++
  by_word[$1]++
  last = $2
  h = $2
}
`
const prog2 = `counter seen by w limit 5
/^(\w+) (\d+)$/ {
  seen[$1]++
  del seen[$1] after 1h
}
`
const prog3 = `gauge f
text t
counter c3
/^(\w+) (\d+)$/ {
  f = $2 * 0.5
  t = $1
  c3 += 2
}
`

// prog4: data whose expiry clock is driven by the line (settime), so that the
// harness decides when a datum is collectable: stamped 1970 it is expired at
// once, stamped ten hours ahead it is not collectable for the whole run.
const prog4 = `counter exp by k
/^X (\w+) (\d+)$/ {
  settime($2)
  exp[$1]++
  del exp[$1] after 1h
}
`

// expWatch lets the VM line hook look at the store at the end of each
// future-stamped write of an expiry key (in the VM's own goroutine).
type expWatch struct {
	store  *metrics.Store
	prog   string
	future string
	mu     sync.Mutex
	atEnd  map[string]bool // key -> datum present when the refreshing line finished
	// curKey is the key of the refreshing line the program's VM is executing
	// (only touched by that VM's goroutine); atLookup records whether the
	// datum was in the metric when that line's dload ran.
	curKey   string
	atLookup map[string]bool
}

func (w *expWatch) present(k string) bool {
	if m := w.store.FindMetricOrNil("exp", w.prog); m != nil {
		m.RLock()
		defer m.RUnlock()
		return m.FindLabelValueOrNil([]string{k}) != nil
	}
	return false
}

func (w *expWatch) lineStart(name string, l *logline.LogLine) {
	if name != w.prog {
		return
	}
	w.curKey = ""
	if f := strings.Fields(l.Line); len(f) == 3 && f[0] == "X" && f[2] == w.future {
		w.curKey = f[1]
	}
}

func (w *expWatch) onInstr(i *vm.VerifInstr) {
	if i.VMName != w.prog || w.curKey == "" || i.Instr.Opcode != code.Dload {
		return
	}
	p := w.present(w.curKey)
	w.mu.Lock()
	if _, seen := w.atLookup[w.curKey]; !seen {
		w.atLookup[w.curKey] = p
	}
	w.mu.Unlock()
}

var watch atomic.Pointer[expWatch]

func (w *expWatch) lineDone(name string, l *logline.LogLine) {
	if name != w.prog || !strings.HasPrefix(l.Line, "X ") {
		return
	}
	f := strings.Fields(l.Line)
	if len(f) != 3 || f[2] != w.future {
		return
	}
	present := false
	if m := w.store.FindMetricOrNil("exp", w.prog); m != nil {
		m.RLock()
		present = m.FindLabelValueOrNil([]string{f[1]}) != nil
		m.RUnlock()
	}
	w.mu.Lock()
	w.atEnd[f[1]] = present
	w.mu.Unlock()
}

var inProgress atomic.Int64 // VM lines currently executing
var perturb atomic.Uint64

func jitter() {
	x := perturb.Add(0x9E3779B97F4A7C15)
	x ^= x >> 29
	switch x % 16 {
	case 0, 1, 2:
		runtime.Gosched()
	case 3:
		time.Sleep(time.Duration(x>>8%50) * time.Microsecond)
	}
}

// failingResponse is a ResponseWriter whose k-th and later writes fail.
type failingResponse struct {
	*httptest.ResponseRecorder
	k, n int
}

func (f *failingResponse) Write(p []byte) (int, error) {
	f.n++
	if f.n >= f.k {
		return 0, fmt.Errorf("client went away")
	}
	return f.ResponseRecorder.Write(p)
}

type scrapeSample struct {
	path       string
	linesTotal int64
	hasLines   bool
	last       int64
	hasLast    bool
	hCount     uint64
	hInf       uint64
	hasH       bool
	hMonotone  bool
	overlap    bool
}

type runResult struct {
	what                     string
	scrapes                  int
	overlaps                 int
	gcs                      int
	gcOver                   int
	reloads                  int
	expChecked, expCollected int
	orphaned                 []string
}

func oneRun(t *testing.T, r *ev.Run, g *ev.RNG, run int, withReload bool) runResult {
	var res runResult
	nlines := g.Range(ev.Pick(500, 1500), ev.Pick(1200, 3000))
	words := []string{"alpha", "beta", "gamma", "delta", "eps", "zeta", "eta", "theta", "iota", "kappa"}
	store := metrics.NewStore()
	in := make(chan *logline.LogLine)
	var wg sync.WaitGroup
	rt, err := mrt.New(in, &wg, "", store)
	if err != nil {
		t.Fatal(err)
	}
	names := []string{fmt.Sprintf("c11_%d_a.mtail", run), fmt.Sprintf("c11_%d_b.mtail", run), fmt.Sprintf("c11_%d_c.mtail", run), fmt.Sprintf("c11_%d_d.mtail", run)}
	srcs := []string{prog1, prog2, prog3, prog4}
	for i := range names {
		if err := rt.CompileAndRun(names[i], strings.NewReader(srcs[i])); err != nil {
			t.Fatal(err)
		}
	}
	defer func() {
		for _, n := range names {
			mrt.ProgLoads.Delete(n)
			vm.ProgRuntimeErrors.Delete(n)
		}
	}()
	e, err := exporter.New(context.Background(), store, exporter.Hostname("h"), exporter.DisableExport(), exporter.EmitTimestamp())
	if err != nil {
		t.Fatal(err)
	}
	defer e.Stop()
	stop := make(chan struct{})
	var bg sync.WaitGroup
	var mu sync.Mutex
	var samples []scrapeSample
	wordCount := map[string]int64{}
	written := map[int64]bool{}
	var expKeys []string
	// exporters
	exportLoop := func(path string, f func() []byte, parse func([]byte, *scrapeSample) string) {
		bg.Add(1)
		go func() {
			defer bg.Done()
			for {
				select {
				case <-stop:
					return
				default:
				}
				s := scrapeSample{path: path, overlap: inProgress.Load() > 0}
				out := f()
				if w := parse(out, &s); w != "" {
					mu.Lock()
					if res.what == "" {
						res.what = path + ": " + w
					}
					mu.Unlock()
				}
				mu.Lock()
				samples = append(samples, s)
				mu.Unlock()
				jitter()
			}
		}()
	}
	promRe := regexp.MustCompile(`(?m)^lines_total\{[^}]*\} (\d+)`)
	_ = promRe
	exportLoop("prometheus", func() []byte {
		var b bytes.Buffer
		if err := e.Write(&b); err != nil {
			return []byte("ERROR " + err.Error())
		}
		return b.Bytes()
	}, func(out []byte, s *scrapeSample) string {
		if bytes.HasPrefix(out, []byte("ERROR ")) {
			return string(out)
		}
		var tp expfmt.TextParser
		fams, err := tp.TextToMetricFamilies(bytes.NewReader(out))
		if err != nil {
			return "exposition does not parse: " + err.Error()
		}
		if f := fams["lines_total"]; f != nil && len(f.Metric) == 1 {
			s.linesTotal, s.hasLines = int64(f.Metric[0].GetCounter().GetValue()), true
		}
		if f := fams["last"]; f != nil && len(f.Metric) == 1 {
			s.last, s.hasLast = int64(f.Metric[0].GetGauge().GetValue()), true
		}
		if f := fams["h"]; f != nil && len(f.Metric) == 1 {
			h := f.Metric[0].GetHistogram()
			s.hasH, s.hCount, s.hMonotone = true, h.GetSampleCount(), true
			prev := uint64(0)
			for _, b := range h.Bucket {
				if b.GetCumulativeCount() < prev {
					s.hMonotone = false
				}
				prev = b.GetCumulativeCount()
				s.hInf = b.GetCumulativeCount()
			}
		}
		return ""
	})
	exportLoop("json", func() []byte {
		rec := httptest.NewRecorder()
		e.HandleJSON(rec, httptest.NewRequest("GET", "/json", nil))
		return rec.Body.Bytes()
	}, func(out []byte, s *scrapeSample) string {
		var ms []struct {
			Name        string
			Program     string
			LabelValues []struct {
				Labels []string
				Value  struct {
					Value json.RawMessage
					Count uint64
				}
			}
		}
		if err := json.Unmarshal(out, &ms); err != nil {
			return "JSON does not decode: " + err.Error()
		}
		for _, m := range ms {
			if m.Name == "lines_total" && len(m.LabelValues) == 1 {
				v, _ := strconv.ParseInt(string(m.LabelValues[0].Value.Value), 10, 64)
				s.linesTotal, s.hasLines = v, true
			}
			if m.Name == "last" && len(m.LabelValues) == 1 {
				v, _ := strconv.ParseInt(string(m.LabelValues[0].Value.Value), 10, 64)
				s.last, s.hasLast = v, true
			}
		}
		return ""
	})
	lineRe := func(name string) *regexp.Regexp {
		return regexp.MustCompile(`(?m)^` + name + `[{ .][^\n]* (-?\d+)( \d+)?$`)
	}
	varzLines, varzLast := regexp.MustCompile(`(?m)^lines_total\{[^}]*\} (\d+)$`), regexp.MustCompile(`(?m)^last\{[^}]*\} (\d+)$`)
	_ = lineRe
	exportLoop("varz", func() []byte {
		rec := httptest.NewRecorder()
		e.HandleVarz(rec, httptest.NewRequest("GET", "/varz", nil))
		return rec.Body.Bytes()
	}, func(out []byte, s *scrapeSample) string {
		if m := varzLines.FindSubmatch(out); m != nil {
			s.linesTotal, _ = strconv.ParseInt(string(m[1]), 10, 64)
			s.hasLines = true
		}
		if m := varzLast.FindSubmatch(out); m != nil {
			s.last, _ = strconv.ParseInt(string(m[1]), 10, 64)
			s.hasLast = true
		}
		return ""
	})
	graphiteLines := regexp.MustCompile(`(?m)^\S*\.lines_total (\d+) \d+$`)
	exportLoop("graphite", func() []byte {
		rec := httptest.NewRecorder()
		e.HandleGraphite(rec, httptest.NewRequest("GET", "/graphite", nil))
		return rec.Body.Bytes()
	}, func(out []byte, s *scrapeSample) string {
		if m := graphiteLines.FindSubmatch(out); m != nil {
			s.linesTotal, _ = strconv.ParseInt(string(m[1]), 10, 64)
			s.hasLines = true
		}
		return ""
	})
	// clients that go away in the middle of a response (write error at the k-th
	// write): whatever the handler leaves behind must not touch the metrics
	// any more once it has returned
	var abortN atomic.Int64
	for _, h := range []string{"varz", "graphite"} {
		h := h
		exportLoop(h+"-aborted", func() []byte {
			fw := &failingResponse{ResponseRecorder: httptest.NewRecorder(), k: int(1 + abortN.Add(1)%7)}
			req := httptest.NewRequest("GET", "/"+h, nil)
			if h == "varz" {
				e.HandleVarz(fw, req)
			} else {
				e.HandleGraphite(fw, req)
			}
			return nil
		}, func(out []byte, s *scrapeSample) string { return "" })
	}
	for _, format := range []string{"statsd", "collectd"} {
		format := format
		exportLoop("push-"+format, func() []byte {
			var b bytes.Buffer
			if err := e.WriteSocketMetricsForVerif(&b, format); err != nil {
				return []byte("ERROR " + err.Error())
			}
			return b.Bytes()
		}, func(out []byte, s *scrapeSample) string {
			if bytes.HasPrefix(out, []byte("ERROR ")) {
				return string(out)
			}
			return ""
		})
	}
	// GC loop
	var gcs, gcOver atomic.Int64
	bg.Add(1)
	go func() {
		defer bg.Done()
		for {
			select {
			case <-stop:
				return
			default:
			}
			if inProgress.Load() > 0 {
				gcOver.Add(1)
			}
			_ = store.Gc()
			gcs.Add(1)
			jitter()
		}
	}()
	// reloader (comment-only edits keep the declarations in place)
	var reloads atomic.Int64
	if withReload {
		bg.Add(1)
		go func() {
			defer bg.Done()
			n := 0
			for {
				select {
				case <-stop:
					return
				default:
				}
				n++
				i := n % len(names)
				_ = rt.CompileAndRun(names[i], strings.NewReader(srcs[i]+fmt.Sprintf("# edit %d\n", n)))
				reloads.Add(1)
				time.Sleep(time.Duration(200+n%700) * time.Microsecond)
			}
		}()
	}
	// feed
	// New label sets keep appearing for the whole run (a reload or GC pass that
	// overlaps the first write of a label set is part of the schedule space),
	// and every eighth line starts an expiry pair: key e<i> is written stamped
	// 1970 (collectable at once) and, a few lines later, stamped ten hours
	// ahead (not collectable any more).
	future := time.Now().Add(10 * time.Hour).Unix()
	w := &expWatch{store: store, prog: names[3], future: fmt.Sprint(future), atEnd: map[string]bool{}, atLookup: map[string]bool{}}
	watch.Store(w)
	defer watch.Store(nil)
	type pend struct {
		key string
		at  int
	}
	var pending []pend
	for i := 0; i < nlines; i++ {
		var w string
		if i%25 == 0 {
			w = fmt.Sprintf("w%d", i)
			words = append(words, w)
		} else {
			w = words[g.Intn(len(words))]
		}
		v := int64(i + 1)
		wordCount[w]++
		written[v] = true
		in <- logline.New(nil, "log", fmt.Sprintf("%s %d", w, v))
		if i%8 == 0 {
			k := fmt.Sprintf("e%d", i)
			in <- logline.New(nil, "log", fmt.Sprintf("X %s %d", k, 1000000))
			pending = append(pending, pend{k, i + g.Intn(3)})
			expKeys = append(expKeys, k)
		}
		for len(pending) > 0 && pending[0].at <= i {
			in <- logline.New(nil, "log", fmt.Sprintf("X %s %d", pending[0].key, future))
			pending = pending[1:]
		}
	}
	for _, p := range pending {
		in <- logline.New(nil, "log", fmt.Sprintf("X %s %d", p.key, future))
	}
	in <- logline.New(nil, "log", "barrier")
	in <- logline.New(nil, "log", "barrier")
	close(stop)
	bg.Wait()
	close(in)
	wg.Wait()
	res.gcs, res.gcOver, res.reloads = int(gcs.Load()), int(gcOver.Load()), int(reloads.Load())
	// (2) conservation
	get := func(name, prog string, labels ...string) (int64, bool) {
		m := store.FindMetricOrNil(name, prog)
		if m == nil {
			return 0, false
		}
		m.RLock()
		defer m.RUnlock()
		lv := m.FindLabelValueOrNil(labels)
		if lv == nil {
			return 0, false
		}
		return datum.GetInt(lv.Value), true
	}
	if res.what == "" {
		if v, ok := get("lines_total", names[0]); !ok || v != int64(nlines) {
			res.what = fmt.Sprintf("conservation: lines_total=%d (present=%v) after %d matching lines", v, ok, nlines)
		}
	}
	if res.what == "" {
		for w, n := range wordCount {
			if v, ok := get("by_word", names[0], w); !ok || v != n {
				res.what = fmt.Sprintf("conservation: by_word[%s]=%d (present=%v), %d increments were performed", w, v, ok, n)
				break
			}
		}
	}
	if res.what == "" {
		if v, ok := get("c3", names[2]); !ok || v != 2*int64(nlines) {
			res.what = fmt.Sprintf("conservation: c3=%d (present=%v) want %d", v, ok, 2*nlines)
		}
	}
	// (2b) a datum refreshed with a current timestamp is not collectable: each
	// expiry key was last written stamped in the future, so it must be there,
	// holding 2 (never collected) or 1 (collected while it was stamped 1970).
	if res.what == "" {
		for _, k := range expKeys {
			if v, ok := get("exp", names[3], k); !ok || v < 1 || v > 2 {
				w.mu.Lock()
				atEnd, seen := w.atEnd[k]
				atLookup := w.atLookup[k]
				w.mu.Unlock()
				if seen && !atEnd && atLookup {
					// already gone when the refreshing line finished: collected
					// between that line's datum lookup and its write (C11-e)
					res.orphaned = append(res.orphaned, k)
					continue
				}
				res.what = fmt.Sprintf("gc-of-live-datum: exp[%s]=%d (present=%v) although its last write was stamped ten hours ahead with expiry 1h; in the store at that line's dload: %v, when that line finished: %v (C11-e needs: there at the dload, gone at the end)", k, v, ok, atLookup, atEnd)
				break
			}
			res.expChecked++
			if v, _ := get("exp", names[3], k); v == 1 {
				res.expCollected++
			}
		}
	}
	// (3) scrape log
	lastSeen := map[string]int64{}
	for _, s := range samples {
		res.scrapes++
		if s.overlap {
			res.overlaps++
		}
		if res.what != "" {
			continue
		}
		if s.hasLines {
			if s.linesTotal > int64(nlines) {
				res.what = fmt.Sprintf("%s exported lines_total=%d, more than the %d increments ever performed", s.path, s.linesTotal, nlines)
			}
			if s.linesTotal < lastSeen[s.path] {
				res.what = fmt.Sprintf("%s exported lines_total=%d after having exported %d", s.path, s.linesTotal, lastSeen[s.path])
			}
			lastSeen[s.path] = s.linesTotal
		}
		if s.hasLast && s.last != 0 && !written[s.last] {
			res.what = fmt.Sprintf("%s exported last=%d, a value never written", s.path, s.last)
		}
		if s.hasH && (s.hInf != s.hCount || !s.hMonotone) {
			res.what = fmt.Sprintf("%s exported a torn histogram: +Inf bucket %d, count %d, monotone=%v", s.path, s.hInf, s.hCount, s.hMonotone)
		}
	}
	return res
}

// ---- sub-workload C: reloads while lines create new label sets -------------
//
// Every line is the first write of its label set, the VM line hook stalls a
// share of the lines right after they were taken off the VM's queue, and a
// reloader swaps the program (comment-only edits) as fast as it can, so many
// reloads happen with a line in flight whose datum does not exist yet.
// Oracle: conservation — every key ends with exactly the one increment.
const prog5 = `counter fresh by k
counter fresh_total
/^N (\w+)$/ {
  fresh[$1]++
  fresh_total++
}
`

var stallLines atomic.Bool

func reloadNewLabels(t *testing.T, r *ev.Run, g *ev.RNG, run int) (what string, reloads, inflight int) {
	store := metrics.NewStore()
	in := make(chan *logline.LogLine)
	var wg sync.WaitGroup
	rt, err := mrt.New(in, &wg, "", store)
	if err != nil {
		t.Fatal(err)
	}
	name := fmt.Sprintf("c11_fresh_%d.mtail", run)
	if err := rt.CompileAndRun(name, strings.NewReader(prog5)); err != nil {
		t.Fatal(err)
	}
	defer mrt.ProgLoads.Delete(name)
	defer vm.ProgRuntimeErrors.Delete(name)
	stallLines.Store(true)
	defer stallLines.Store(false)
	stop := make(chan struct{})
	var bg sync.WaitGroup
	var nre, nin atomic.Int64
	bg.Add(1)
	go func() {
		defer bg.Done()
		for n := 1; ; n++ {
			select {
			case <-stop:
				return
			default:
			}
			if inProgress.Load() > 0 {
				nin.Add(1)
			}
			_ = rt.CompileAndRun(name, strings.NewReader(prog5+fmt.Sprintf("# edit %d\n", n)))
			nre.Add(1)
			jitter()
		}
	}()
	nlines := g.Range(ev.Pick(400, 800), ev.Pick(900, 2500))
	for i := 0; i < nlines; i++ {
		in <- logline.New(nil, "log", fmt.Sprintf("N k%d", i))
	}
	in <- logline.New(nil, "log", "barrier")
	in <- logline.New(nil, "log", "barrier")
	close(stop)
	bg.Wait()
	close(in)
	wg.Wait()
	m := store.FindMetricOrNil("fresh", name)
	if m == nil {
		return "conservation: metric fresh is gone after the reloads", int(nre.Load()), int(nin.Load())
	}
	m.RLock()
	defer m.RUnlock()
	for i := 0; i < nlines; i++ {
		k := fmt.Sprintf("k%d", i)
		lv := m.FindLabelValueOrNil([]string{k})
		if lv == nil || datum.GetInt(lv.Value) != 1 {
			v := int64(-1)
			if lv != nil {
				v = datum.GetInt(lv.Value)
			}
			return fmt.Sprintf("conservation: fresh[%s]=%d (-1: absent) after its one increment; %d reloads, %d of them begun with a line in flight", k, v, nre.Load(), nin.Load()), int(nre.Load()), int(nin.Load())
		}
	}
	return "", int(nre.Load()), int(nin.Load())
}

// ---- forced schedule: a GC pass between a line's datum lookup and its write --
//
// One deterministic schedule out of the space the stress runs sample: key k is
// written stamped 1970 (collectable), then a second line writes it stamped ten
// hours ahead; the instruction hook runs Store.Gc in the VM's goroutine right
// before that line's inc, i.e. after its dload fetched the datum. In every
// sequential order of {GC pass, second line} the key ends present (1 or 2).
func forcedGcBetweenLookupAndWrite(t *testing.T, r *ev.Run) {
	store := metrics.NewStore()
	in := make(chan *logline.LogLine)
	var wg sync.WaitGroup
	rt, err := mrt.New(in, &wg, "", store)
	if err != nil {
		t.Fatal(err)
	}
	const name = "c11_forced.mtail"
	if err := rt.CompileAndRun(name, strings.NewReader(prog4)); err != nil {
		t.Fatal(err)
	}
	defer mrt.ProgLoads.Delete(name)
	defer vm.ProgRuntimeErrors.Delete(name)
	var armed atomic.Bool
	ih := func(i *vm.VerifInstr) {
		if i.VMName == name && i.Instr.Opcode == code.Inc && armed.CompareAndSwap(true, false) {
			_ = store.Gc()
		}
	}
	prev := vm.VerifInstrHook.Load()
	vm.VerifInstrHook.Store(&ih)
	defer vm.VerifInstrHook.Store(prev)
	future := time.Now().Add(10 * time.Hour).Unix()
	in <- logline.New(nil, "log", "X k 1000000")
	in <- logline.New(nil, "log", "barrier")
	in <- logline.New(nil, "log", "barrier")
	armed.Store(true)
	in <- logline.New(nil, "log", fmt.Sprintf("X k %d", future))
	close(in)
	wg.Wait()
	present, v := false, int64(0)
	if m := store.FindMetricOrNil("exp", name); m != nil {
		m.RLock()
		if lv := m.FindLabelValueOrNil([]string{"k"}); lv != nil {
			present, v = true, datum.GetInt(lv.Value)
		}
		m.RUnlock()
	}
	r.Eval(1)
	switch {
	case armed.Load():
		r.Inconclusive("forced schedule: the inc instruction of the refreshing line was never reached")
	case present && (v == 1 || v == 2):
		r.Count("forced_gc_between_lookup_and_write_held", 1)
	default:
		r.Known("C11-e", map[string]any{"schedule": "line 'X k 1000000'; line 'X k <now+10h>' with Store.Gc run between its dload and its inc", "present": present, "value": v, "program": prog4})
	}
}

// ---- porcupine: single datum under concurrent clients ----------------------

type regOp struct {
	Write bool
	Arg   int64
}

func linearizability(r *ev.Run, g *ev.RNG, histories int) {
	regModel := porcupine.Model{
		Init: func() interface{} { return int64(0) },
		Step: func(st, in, out interface{}) (bool, interface{}) {
			o := in.(regOp)
			if o.Write {
				return true, o.Arg
			}
			return out.(int64) == st.(int64), st
		},
	}
	ctrModel := porcupine.Model{
		Init: func() interface{} { return int64(0) },
		Step: func(st, in, out interface{}) (bool, interface{}) {
			o := in.(regOp)
			if o.Write {
				return true, st.(int64) + o.Arg
			}
			return out.(int64) == st.(int64), st
		},
	}
	for h := 0; h < histories; h++ {
		counter := h%2 == 1
		m := metrics.NewMetric("m", "p", metrics.Gauge, metrics.Int)
		d, _ := m.GetDatum()
		var clock atomic.Int64
		var mu sync.Mutex
		var ops []porcupine.Operation
		var wg sync.WaitGroup
		for c := 0; c < 4; c++ {
			wg.Add(1)
			seed := g.U64()
			go func(c int, seed uint64) {
				defer wg.Done()
				x := seed
				for k := 0; k < 10; k++ {
					x = x*6364136223846793005 + 1442695040888963407
					var op porcupine.Operation
					op.ClientId = c
					op.Call = clock.Add(1)
					if (x>>33)%2 == 0 {
						v := int64(c)<<32 | int64(k+1)
						if counter {
							v = int64(k%3 + 1)
							datum.IncIntBy(d, v, time.Unix(1, 0))
						} else {
							datum.SetInt(d, v, time.Unix(1, 0))
						}
						op.Input, op.Output = regOp{true, v}, int64(0)
					} else {
						op.Input = regOp{false, 0}
						op.Output = datum.GetInt(d)
					}
					op.Return = clock.Add(1)
					mu.Lock()
					ops = append(ops, op)
					mu.Unlock()
					if (x>>40)%4 == 0 {
						runtime.Gosched()
					}
				}
			}(c, seed)
		}
		wg.Wait()
		model := regModel
		if counter {
			model = ctrModel
		}
		switch porcupine.CheckOperationsTimeout(model, ops, 20*time.Second) {
		case porcupine.Illegal:
			r.Violation("datum-not-linearizable", map[string]any{"counter_model": counter, "history": fmt.Sprintf("%+v", ops)})
		case porcupine.Unknown:
			r.Count("porcupine_timeouts", 1)
		default:
			r.Count("porcupine_histories_ok", 1)
		}
	}
}

// ---- race log ---------------------------------------------------------------

var addrRe = regexp.MustCompile(`0x[0-9a-f]+|\+0x[0-9a-f]+|:\d+|goroutine \d+|\(\) *`)

func raceReports() (raw int, distinct map[string]string) {
	distinct = map[string]string{}
	files, _ := filepath.Glob(filepath.Join(ev.Scratch(), "race.log.*"))
	for _, f := range files {
		b, err := os.ReadFile(f)
		if err != nil {
			continue
		}
		for _, blk := range strings.Split(string(b), "==================") {
			if !strings.Contains(blk, "WARNING: DATA RACE") {
				continue
			}
			if !strings.Contains(blk, "github.com/google/mtail/internal/") {
				continue
			}
			raw++
			// key: the two accessing functions (first frame of each access stack)
			var keyFrames []string
			lines := strings.Split(blk, "\n")
			for i, l := range lines {
				t := strings.TrimSpace(l)
				if (strings.HasPrefix(t, "Read at") || strings.HasPrefix(t, "Write at") || strings.HasPrefix(t, "Previous read at") || strings.HasPrefix(t, "Previous write at") || strings.HasPrefix(t, "Previous atomic") || strings.HasPrefix(t, "Atomic")) && i+1 < len(lines) {
					// first mtail frame of this stack
					for j := i + 1; j < len(lines) && strings.TrimSpace(lines[j]) != ""; j++ {
						fr := strings.TrimSpace(lines[j])
						if strings.HasPrefix(fr, "github.com/google/mtail/internal/") {
							keyFrames = append(keyFrames, addrRe.ReplaceAllString(fr, ""))
							break
						}
					}
				}
			}
			sort.Strings(keyFrames)
			k := strings.Join(keyFrames, " <-> ")
			if _, ok := distinct[k]; !ok {
				distinct[k] = strings.TrimSpace(blk)
			}
		}
	}
	return
}

func TestC11(t *testing.T) {
	r := ev.Start(t, "C11", "exploration")
	defer r.Finish()
	r.Rule("short runs (quick: 6 A/B + 6 C; thorough: 30 + 16), each a fresh Store + real runtime.Runtime with 3 compiled programs (scalar and dimensioned counters, gauge written with unique values, histogram, text, float, limit + del-after) fed 1.5-4k lines while, concurrently, a tight Store.Gc loop, eight export loops (Prometheus Write, /json, /varz, /graphite, /varz and /graphite with a client that goes away at the k-th write, statsd and collectd push path) and — in sub-workload B — a reloader doing comment-only edits run under the race detector with GOMAXPROCS in {2,4,16} and PRNG jitter at the VM line hook. Oracles: race reports with mtail frames; counters equal the increments performed; per-path monotone counter samples <= final; gauge samples were written; histogram +Inf bucket == count; porcupine register/counter linearizability of one datum under 4 clients. Non-trivial: a run in which >=1 export and >=1 GC pass began while a VM line was executing; distinct by run index.")
	r.Assume("the race detector only sees races on accesses this workload performs; a clean run is not race-freedom", "reloads are comment-only so declarations (and therefore data) are carried over")
	lh := func(id uint64, name string, l *logline.LogLine, phase int) {
		if phase == 0 {
			inProgress.Add(1)
			if w := watch.Load(); w != nil {
				w.lineStart(name, l)
			}
			jitter()
			if stallLines.Load() {
				if x := perturb.Add(0x9E3779B97F4A7C15) >> 33; x%3 == 0 {
					time.Sleep(time.Duration(20+x>>8%100) * time.Microsecond)
				}
			}
		} else {
			if w := watch.Load(); w != nil {
				w.lineDone(name, l)
			}
			inProgress.Add(-1)
		}
	}
	vm.VerifLineHook.Store(&lh)
	defer vm.VerifLineHook.Store(nil)
	ih := func(i *vm.VerifInstr) {
		if w := watch.Load(); w != nil {
			w.onInstr(i)
		}
	}
	vm.VerifInstrHook.Store(&ih)
	defer vm.VerifInstrHook.Store(nil)
	runs := ev.Pick(6, 30)
	rng := ev.NewRNG(ev.Seed(), "c11")
	defer runtime.GOMAXPROCS(runtime.GOMAXPROCS(0))
	totOver, totGcOver, totScr, totReload, totExp, totExpColl := 0, 0, 0, 0, 0, 0
	for run := 0; run < runs; run++ {
		g := rng.Sub(run)
		runtime.GOMAXPROCS([]int{2, 4, 16}[run%3])
		var res runResult
		r.Guard(fmt.Sprintf("workload run %d (lines, GC, exports, reloads) and runtime shutdown", run), func() { res = oneRun(t, r, g, run, run%2 == 1) }, "vm.(*VM).Run")
		r.Eval(1)
		totOver += res.overlaps
		totGcOver += res.gcOver
		totScr += res.scrapes
		totReload += res.reloads
		totExp += res.expChecked
		totExpColl += res.expCollected
		for _, k := range res.orphaned {
			r.Known("C11-e", map[string]any{"run": run, "key": k, "what": "exp[" + k + "] absent at the end of the line that wrote it stamped ten hours ahead: a GC pass removed the (then still stale) datum between that line's dload and its inc, the increment went to the orphan"})
		}
		if res.what != "" {
			r.Violation(strings.SplitN(res.what, ":", 2)[0], map[string]any{"run": run, "with_reload": run%2 == 1, "gomaxprocs": []int{2, 4, 16}[run%3], "what": res.what})
			if r.Violations() > 5 {
				break
			}
			continue
		}
		if res.overlaps > 0 && res.gcOver > 0 {
			r.Distinct(fmt.Sprint(run))
		}
	}
	r.Count("exports_checked", totScr)
	r.Count("exports_begun_during_a_vm_line", totOver)
	r.Count("gc_passes_begun_during_a_vm_line", totGcOver)
	r.Count("reloads_during_lines", totReload)
	r.Count("expiry_keys_refreshed_and_checked", totExp)
	r.Count("expiry_keys_collected_between_stale_and_fresh_write", totExpColl)
	totC, inflightC := 0, 0
	for run := 0; run < ev.Pick(6, 16) && r.Violations() == 0; run++ {
		runtime.GOMAXPROCS([]int{2, 4, 16}[run%3])
		var what string
		var nre, nin int
		r.Guard(fmt.Sprintf("workload C run %d and runtime shutdown", run), func() { what, nre, nin = reloadNewLabels(t, r, rng.Sub(5000+run), run) }, "vm.(*VM).Run")
		r.Eval(1)
		totC += nre
		inflightC += nin
		if what != "" {
			r.Violation("conservation", map[string]any{"workload": "C (reloads while lines create new label sets)", "run": run, "what": what, "program": prog5})
		} else if nin > 0 {
			r.Distinct(fmt.Sprint("C", run))
		}
	}
	r.Count("workloadC_reloads", totC)
	r.Count("workloadC_reloads_begun_with_a_line_in_flight", inflightC)
	runtime.GOMAXPROCS(16)
	forcedGcBetweenLookupAndWrite(t, r)
	linearizability(r, rng.Sub(999999), ev.Pick(200, 2000))
	raw, distinct := raceReports()
	r.Count("race_reports_raw", raw)
	r.Count("race_reports_distinct", len(distinct))
	var keys []string
	for k := range distinct {
		keys = append(keys, k)
	}
	sort.Strings(keys)
	for _, k := range keys {
		r.Violation("data-race", map[string]any{"access_pair": k, "report": distinct[k]})
	}
	r.Sample(map[string]any{"programs": []string{prog1, prog2, prog3}, "line_format": "<word> <unique number>"})
	r.Floor("exports_begun_during_a_vm_line", 50)
	r.Floor("gc_passes_begun_during_a_vm_line", 20)
	r.Floor("workloadC_reloads_begun_with_a_line_in_flight", 20)
}
