//go:build verif

// C14 — program reload preserves state and never duplicates series.
// Monitor: reference model of the intended store over histories of
// {load version v, feed lines, GC, unload} on a real runtime.Runtime + Store +
// Prometheus registry; checked after every step.
package c14

import (
	"fmt"
	"net/http/httptest"
	"sort"
	"strings"
	"sync"
	"testing"
	"time"

	"context"

	"github.com/google/mtail/internal/exporter"
	"github.com/google/mtail/internal/logline"
	"github.com/google/mtail/internal/metrics"
	"github.com/google/mtail/internal/metrics/datum"
	mrt "github.com/google/mtail/internal/runtime"
	"github.com/google/mtail/internal/runtime/vm"
	"github.com/google/mtail/verif/ev"
	"github.com/prometheus/client_golang/prometheus"
	"github.com/prometheus/client_golang/prometheus/promhttp"
	"github.com/prometheus/common/expfmt"
)

const rules = `/^inc$/ {
  c++
}
/^set (\w+) (\d+)$/ {
  d[$1] = $2
  del d[$1] after 1h
}
`

// histRules feed a histogram from the same lines (inc -> 0; set x n -> n - 6).
const histRules = `/^inc$/ {
  h = 0
}
/^set (\w+) (\d+)$/ {
  h = $2 - 6
}
`

// histogramsConsistent: whatever a reload does to a histogram (keep it, reset
// it, give it new boundaries), every observation it reports is in exactly one
// of its buckets.
func histogramsConsistent(st *metrics.Store, prog string) string {
	what := ""
	_ = st.Range(func(m *metrics.Metric) error {
		if m.Program != prog || m.Type != metrics.Buckets {
			return nil
		}
		m.RLock()
		defer m.RUnlock()
		for _, lv := range m.LabelValues {
			b, ok := lv.Value.(*datum.Buckets)
			if !ok {
				continue
			}
			var sum uint64
			for _, n := range b.GetBuckets() {
				sum += n
			}
			if sum != b.GetCount() {
				what = fmt.Sprintf("histogram %s: its buckets hold %d observations, its count says %d", m.Name, sum, b.GetCount())
			}
		}
		return nil
	})
	return what
}

type decl struct {
	Kind, Name, Type string
	Keys             string
	Line             int
}

type version struct {
	Name  string
	Src   func(nonce int) string
	Decls []decl // declarations of c and d (identity for "kept")
	Fails bool
}

var base = []decl{{"Counter", "c", "Int", "", 1}, {"Gauge", "d", "Int", "k", 2}}

var versions = []version{
	{"base", func(n int) string { return "counter c\ngauge d by k\n" + rules + fmt.Sprintf("# nonce %d\n", n) }, base, false},
	{"identical", nil, nil, false},
	{"comment-appended", func(n int) string {
		return "counter c\ngauge d by k\n" + rules + fmt.Sprintf("# a trailing comment\n# nonce %d\n", n)
	}, base, false},
	{"declaration-moved", func(n int) string { return fmt.Sprintf("# nonce %d\n", n) + "counter c\ngauge d by k\n" + rules },
		[]decl{{"Counter", "c", "Int", "", 2}, {"Gauge", "d", "Int", "k", 3}}, false},
	{"kind-changed", func(n int) string { return "gauge c\ngauge d by k\n" + rules + fmt.Sprintf("# nonce %d\n", n) },
		[]decl{{"Gauge", "c", "Int", "", 1}, {"Gauge", "d", "Int", "k", 2}}, false},
	{"kind-changed-later-decl", func(n int) string { return "counter c\ntimer d by k\n" + rules + fmt.Sprintf("# nonce %d\n", n) },
		[]decl{{"Counter", "c", "Int", "", 1}, {"Timer", "d", "Int", "k", 2}}, false},
	{"type-changed", func(n int) string {
		return "counter c\ngauge d by k\n" + strings.Replace(rules, "d[$1] = $2", "d[$1] = float($2)", 1) + fmt.Sprintf("# nonce %d\n", n)
	}, []decl{{"Counter", "c", "Int", "", 1}, {"Gauge", "d", "Float", "k", 2}}, false},
	{"keys-changed", func(n int) string {
		return "counter c\ngauge d by k, j\n" + strings.ReplaceAll(rules, "d[$1]", "d[$1, \"x\"]") + fmt.Sprintf("# nonce %d\n", n)
	}, []decl{{"Counter", "c", "Int", "", 1}, {"Gauge", "d", "Int", "k,j", 2}}, false},
	{"declaration-removed", func(n int) string { return "counter c\n/^inc$/ {\n  c++\n}\n" + fmt.Sprintf("# nonce %d\n", n) },
		[]decl{{"Counter", "c", "Int", "", 1}}, false},
	{"declaration-added", func(n int) string {
		return "counter c\ngauge d by k\ncounter e\n" + rules + "/^inc$/ {\n  e++\n}\n" + fmt.Sprintf("# nonce %d\n", n)
	}, base, false},
	{"syntax-error", func(n int) string { return "counter c\ngauge d by k\n" + rules + fmt.Sprintf("this is { not valid %d\n", n) }, nil, true},
	{"histogram-added", func(n int) string {
		return "counter c\ngauge d by k\nhistogram h buckets -1, 0, 2\n" + rules + histRules + fmt.Sprintf("# nonce %d\n", n)
	}, base, false},
	{"histogram-buckets-edited", func(n int) string {
		return "counter c\ngauge d by k\nhistogram h buckets 1, 2, 4\n" + rules + histRules + fmt.Sprintf("# nonce %d\n", n)
	}, base, false},
	{"kind-clash-within-the-program", func(n int) string {
		// compiles (the two y are in different scopes) but cannot be registered
		return "counter c\ngauge d by k\n" + rules + "/^zz1$/ {\n  counter y\n  y++\n}\n/^zz2$/ {\n  gauge y\n  y = 1\n}\n" + fmt.Sprintf("# nonce %d\n", n)
	}, nil, true},
	{"kind-clash", func(n int) string {
		return "counter c\ngauge d by k\ngauge x\n" + rules + "/^inc$/ {\n  x = 1\n}\n" + fmt.Sprintf("# nonce %d\n", n)
	}, nil, true},
}

type row struct {
	Metric string `json:"metric"`
	Kind   string `json:"kind"`
	Type   string `json:"type"`
	Keys   string `json:"keys"`
	Source string `json:"source"`
	Labels string `json:"labels"`
	Value  string `json:"value"`
	Expiry string `json:"expiry"`
	ptr    *metrics.Metric
}

func snapshot(st *metrics.Store, prog string) []row {
	var out []row
	_ = st.Range(func(m *metrics.Metric) error {
		if m.Program != prog {
			return nil
		}
		m.RLock()
		defer m.RUnlock()
		if len(m.LabelValues) == 0 {
			out = append(out, row{m.Name, m.Kind.String(), m.Type.String(), strings.Join(m.Keys, ","), m.Source, "-", "-", "-", m})
		}
		for _, lv := range m.LabelValues {
			out = append(out, row{m.Name, m.Kind.String(), m.Type.String(), strings.Join(m.Keys, ","), m.Source, strings.Join(lv.Labels, ","), lv.Value.ValueString(), lv.Expiry.String(), m})
		}
		return nil
	})
	sort.Slice(out, func(i, j int) bool {
		a, b := out[i], out[j]
		return a.Metric+a.Source+a.Labels < b.Metric+b.Source+b.Labels
	})
	return out
}

func rowsEqual(a, b []row, identity bool) string {
	if len(a) != len(b) {
		return fmt.Sprintf("%d exported rows before, %d after", len(a), len(b))
	}
	for i := range a {
		x, y := a[i], b[i]
		px, py := x.ptr, y.ptr
		x.ptr, y.ptr = nil, nil
		if x != y {
			return fmt.Sprintf("row %+v became %+v", x, y)
		}
		if identity && px != py {
			return fmt.Sprintf("metric object of %s was replaced", x.Metric)
		}
	}
	return ""
}

// scrape returns an error text when the Prometheus scrape fails or lists a series twice.
func scrape(reg *prometheus.Registry) string {
	rec := httptest.NewRecorder()
	promhttp.HandlerFor(reg, promhttp.HandlerOpts{}).ServeHTTP(rec, httptest.NewRequest("GET", "/metrics", nil))
	if rec.Code != 200 {
		return fmt.Sprintf("scrape failed with %d: %s", rec.Code, strings.TrimSpace(rec.Body.String()))
	}
	var tp expfmt.TextParser
	fams, err := tp.TextToMetricFamilies(rec.Body)
	if err != nil {
		return "scrape output does not parse: " + err.Error()
	}
	seen := map[string]bool{}
	for name, f := range fams {
		for _, m := range f.Metric {
			var kv []string
			for _, lp := range m.Label {
				kv = append(kv, lp.GetName()+"="+lp.GetValue())
			}
			sort.Strings(kv)
			id := name + "{" + strings.Join(kv, ",") + "}"
			if seen[id] {
				return "series exported twice: " + id
			}
			seen[id] = true
		}
	}
	return ""
}

type op struct {
	Kind    string `json:"op"` // load lines gc unload
	Version string `json:"version,omitempty"`
	Lines   string `json:"lines,omitempty"`
}

var vmStarts sync.Map // prog -> *[]uint64 (guarded by startsMu)
var startsMu sync.Mutex

type harness struct {
	t     *testing.T
	prog  string
	store *metrics.Store
	rt    *mrt.Runtime
	lines chan *logline.LogLine
	wg    sync.WaitGroup
	reg   *prometheus.Registry
	exp   *exporter.Exporter
	nonce int
	// model
	loaded   bool
	cur      *version
	curSrc   string
	c        int64
	d        map[string]string // label -> value text
	dExpiry  map[string]bool
	decls    []decl
	lastVMID uint64
}

func (h *harness) feed(ls ...string) {
	for _, l := range ls {
		h.lines <- logline.New(nil, "log", l)
	}
	h.lines <- logline.New(nil, "log", "barrier")
	h.lines <- logline.New(nil, "log", "barrier")
}

func find(rows []row, metric, labels string) *row {
	var hit *row
	for i := range rows {
		if rows[i].Metric == metric && rows[i].Labels == labels {
			if hit != nil {
				return nil // ambiguous: duplicates are reported by scrape()
			}
			hit = &rows[i]
		}
	}
	return hit
}

func kept(old, new []decl) map[string]bool {
	out := map[string]bool{}
	for _, o := range old {
		for _, n := range new {
			if o == n {
				out[o.Name] = true
			}
		}
	}
	return out
}

func TestC14(t *testing.T) {
	r := ev.Start(t, "C14", "exploration")
	defer r.Finish()
	r.Rule("histories over {load version v for v in (base, identical, comment appended, declaration moved, kind changed (first / a later declaration), type changed, keys changed, declaration removed, declaration added, syntax error, kind clash with a second program, kind clash between two declarations of the program itself, a histogram added / its boundaries edited), feed lines, GC, unload} on a real runtime.Runtime + Store + Prometheus registry; all histories of length <=2 (quick) / <=3 (thorough) exhaustively plus random length-8 histories; after every step: identical reload changes nothing (snapshot, metric identity, VM id, load counter); kept declarations keep values and expiry; a failed load leaves the export unchanged and the old version still updates the export; the scrape never fails nor lists a series twice; values follow the model of the lines fed. Non-trivial: history with >=1 successful reload after data exists; distinct by history.")
	r.Assume("for a declaration that was not kept (moved / retyped / re-keyed / kind changed) the statement fixes no value: the model adopts what is observed", "expvar load counters are read per unique program name")
	lh := func(id uint64, name string, l *logline.LogLine, phase int) {
		if phase == 0 && strings.HasPrefix(name, "c14_") {
			startsMu.Lock()
			p, _ := vmStarts.LoadOrStore(name, new([]uint64))
			s := p.(*[]uint64)
			*s = append(*s, id)
			startsMu.Unlock()
		}
	}
	vm.VerifLineHook.Store(&lh)
	defer vm.VerifLineHook.Store(nil)

	var alphabet []op
	for _, v := range versions {
		alphabet = append(alphabet, op{Kind: "load", Version: v.Name})
	}
	alphabet = append(alphabet, op{Kind: "lines", Lines: "inc;set a 5;inc"}, op{Kind: "lines", Lines: "set b 7;set a 9"}, op{Kind: "gc"}, op{Kind: "unload"})
	var histories [][]op
	maxLen := ev.Pick(2, 3)
	var rec func(prefix []op)
	rec = func(prefix []op) {
		if len(prefix) > 0 {
			histories = append(histories, append([]op{}, prefix...))
		}
		if len(prefix) == maxLen {
			return
		}
		for _, o := range alphabet {
			rec(append(prefix, o))
		}
	}
	rec(nil)
	r.Set("exhaustive_histories", len(histories))
	// directed histories for features that need three or more particular steps
	L1, L2 := op{Kind: "lines", Lines: "inc;set a 5;inc"}, op{Kind: "lines", Lines: "set b 7;set a 9"}
	ld := func(v string) op { return op{Kind: "load", Version: v} }
	histories = append(histories,
		[]op{ld("histogram-added"), L1, L2, ld("histogram-buckets-edited"), L1, ld("histogram-added"), L2},
		[]op{ld("histogram-added"), L1, ld("identical"), ld("comment-appended"), L2, ld("histogram-buckets-edited"), {Kind: "gc"}, L1},
		[]op{ld("histogram-added"), L2, {Kind: "unload"}, ld("histogram-buckets-edited"), L1},
		[]op{ld("histogram-buckets-edited"), L1, ld("syntax-error"), ld("histogram-added"), L2, ld("base"), L1},
	)
	rng := ev.NewRNG(ev.Seed(), "c14")
	for i := 0; i < ev.Pick(150, 5000); i++ {
		g := rng.Sub(i)
		var h []op
		for k := 0; k < 8; k++ {
			h = append(h, ev.PickOne(g, alphabet))
		}
		histories = append(histories, h)
	}
	for hi, hist := range histories {
		what, step := runHistory(t, r, hi, hist)
		r.Eval(1)
		if what != "" {
			r.Violation(cls(what), map[string]any{"history": hist, "failing_step": step, "what": what, "prefix": "every history starts with: load base; lines inc,set a 5,inc"})
			if r.Violations() > 10 {
				break
			}
			continue
		}
		reloads := 0
		for _, o := range hist {
			if o.Kind == "load" {
				reloads++
			}
		}
		if reloads >= 1 {
			r.Distinct(fmt.Sprint(hist))
		}
		if hi%401 == 7 {
			r.Sample(map[string]any{"history": hist})
		}
	}
}

// ownKindChange reports whether a version declares a name the program
// currently exports with another kind (such a load may be refused).
func ownKindChange(before []row, ds []decl) bool {
	for _, d := range ds {
		for _, r := range before {
			if r.Metric == d.Name && r.Kind != d.Kind {
				return true
			}
		}
	}
	return false
}

func cls(w string) string {
	switch {
	case strings.Contains(w, "series exported twice") || strings.Contains(w, "scrape failed"):
		return "scrape-duplicate-or-failure"
	case strings.Contains(w, "identical reload"):
		return "identical-reload-changed-something"
	case strings.Contains(w, "failed load"):
		return "failed-load-changed-export"
	case strings.Contains(w, "expiry"):
		return "expiry-lost"
	case strings.Contains(w, "kept declaration"):
		return "kept-declaration-lost-value"
	}
	return "model-mismatch"
}

func loadsOf(name string) string {
	if v := mrt.ProgLoads.Get(name); v != nil {
		return v.String()
	}
	return "0"
}

func runHistory(t *testing.T, r *ev.Run, hi int, hist []op) (string, int) {
	h := &harness{t: t, prog: fmt.Sprintf("c14_%d.mtail", hi), store: metrics.NewStore(), d: map[string]string{}, dExpiry: map[string]bool{}}
	other := fmt.Sprintf("c14_%d_other.mtail", hi)
	h.lines = make(chan *logline.LogLine)
	var err error
	// collector registered on the empty store, as the server does
	h.exp, err = exporter.New(context.Background(), h.store, exporter.Hostname("h"), exporter.DisableExport())
	if err != nil {
		t.Fatal(err)
	}
	h.reg = prometheus.NewRegistry()
	_ = h.reg.Register(h.exp)
	// options the binary's flags turn on and tests rarely do: every third
	// history runs with -omit_metric_source, every fourth with runtime-error logging
	var ropts []mrt.Option
	if hi%3 == 1 {
		ropts = append(ropts, mrt.OmitMetricSource())
	}
	if hi%4 == 2 {
		ropts = append(ropts, mrt.LogRuntimeErrors())
	}
	h.rt, err = mrt.New(h.lines, &h.wg, "", h.store, ropts...)
	if err != nil {
		t.Fatal(err)
	}
	defer func() {
		close(h.lines)
		h.wg.Wait()
		h.exp.Stop()
		mrt.ProgLoads.Delete(h.prog)
		mrt.ProgLoads.Delete(other)
		mrt.ProgLoadErrors.Delete(h.prog)
		mrt.ProgUnloads.Delete(h.prog)
		vmStarts.Delete(h.prog)
	}()
	// second program owning the name x as a counter
	if err := h.rt.CompileAndRun(other, strings.NewReader("counter x\n/^inc$/ {\n  x++\n}\n")); err != nil {
		t.Fatal(err)
	}
	full := append([]op{{Kind: "load", Version: "base"}, {Kind: "lines", Lines: "inc;set a 5;inc"}}, hist...)
	for si, o := range full {
		step := si - 2
		if w := histogramsConsistent(h.store, h.prog); w != "" {
			return "after the previous step: " + w, step - 1
		}
		before := snapshot(h.store, h.prog)
		switch o.Kind {
		case "load":
			var v *version
			for i := range versions {
				if versions[i].Name == o.Version {
					v = &versions[i]
				}
			}
			src := h.curSrc
			identical := v.Name == "identical"
			if identical {
				if !h.loaded {
					continue
				}
			} else {
				h.nonce++
				src = v.Src(h.nonce)
			}
			loadsBefore := loadsOf(h.prog)
			lerr := h.rt.CompileAndRun(h.prog, strings.NewReader(src))
			after := snapshot(h.store, h.prog)
			r.Count("transition_"+v.Name, 1)
			switch {
			case identical:
				if lerr != nil {
					return "identical reload returned an error: " + lerr.Error(), step
				}
				if d := rowsEqual(before, after, true); d != "" {
					return "identical reload changed the store: " + d, step
				}
				if loadsOf(h.prog) != loadsBefore {
					return "identical reload was counted as a load", step
				}
			case v.Fails || (lerr != nil && ownKindChange(before, v.Decls)):
				// (changing the kind of one's own metric may be refused at
				// registration; the statement then treats it like any failed load)
				if lerr == nil {
					return "load of a " + v.Name + " version succeeded", step
				}
				if d := rowsEqual(before, after, true); d != "" {
					return "failed load (" + v.Name + ") changed the export: " + d, step
				}
				if h.loaded {
					// the previous version must still be running and updating the export
					h.feed("inc")
					h.c++
					rows := snapshot(h.store, h.prog)
					if c := find(rows, "c", ""); c == nil || c.Value != fmt.Sprint(h.c) {
						got := "absent/ambiguous"
						if c != nil {
							got = c.Value
						}
						return fmt.Sprintf("after a failed load (%s) the previous version no longer updates the export: c=%s want %d", v.Name, got, h.c), step
					}
				}
			default:
				if lerr != nil {
					return "load of version " + v.Name + " failed: " + lerr.Error(), step
				}
				k := map[string]bool{}
				if h.loaded {
					k = kept(h.decls, v.Decls)
				}
				if k["c"] {
					if c := find(after, "c", ""); c == nil || c.Value != fmt.Sprint(h.c) {
						return fmt.Sprintf("kept declaration c lost its value across the reload to %s (want %d)", v.Name, h.c), step
					}
				} else if c := find(after, "c", ""); c != nil {
					fmt.Sscan(c.Value, &h.c)
				} else {
					h.c = 0
				}
				if k["d"] {
					for lab, val := range h.d {
						row := find(after, "d", lab)
						if row == nil || row.Value != val {
							return fmt.Sprintf("kept declaration d lost d[%s]=%s across the reload to %s", lab, val, v.Name), step
						}
						if h.dExpiry[lab] && row.Expiry != "1h0m0s" {
							return fmt.Sprintf("kept declaration d lost the pending expiry of d[%s] across the reload to %s (now %s)", lab, v.Name, row.Expiry), step
						}
					}
				} else {
					// not kept: adopt what is there
					h.d, h.dExpiry = map[string]string{}, map[string]bool{}
					for _, row := range after {
						if row.Metric == "d" && row.Labels != "-" {
							h.d[row.Labels] = row.Value
							h.dExpiry[row.Labels] = row.Expiry == "1h0m0s"
						}
					}
				}
				h.loaded, h.cur, h.curSrc, h.decls = true, v, src, v.Decls
			}
		case "lines":
			if !h.loaded {
				continue
			}
			ls := strings.Split(o.Lines, ";")
			h.feed(ls...)
			hasD := false
			keysChanged := false
			isFloat := false
			for _, dd := range h.decls {
				if dd.Name == "d" {
					hasD = true
					keysChanged = dd.Keys == "k,j"
					isFloat = dd.Type == "Float"
				}
			}
			for _, l := range ls {
				f := strings.Fields(l)
				switch f[0] {
				case "inc":
					h.c++
				case "set":
					if hasD {
						lab := f[1]
						if keysChanged {
							lab += ",x"
						}
						h.d[lab] = f[2]
						_ = isFloat
						h.dExpiry[lab] = true
					}
				}
			}
			rows := snapshot(h.store, h.prog)
			if c := find(rows, "c", ""); c == nil || c.Value != fmt.Sprint(h.c) {
				got := "absent/ambiguous"
				if c != nil {
					got = c.Value
				}
				return fmt.Sprintf("after lines %q: c=%s, model %d", o.Lines, got, h.c), step
			}
			for lab, val := range h.d {
				row := find(rows, "d", lab)
				if row == nil || row.Value != val {
					return fmt.Sprintf("after lines %q: d[%s] differs from model %s", o.Lines, lab, val), step
				}
				if h.dExpiry[lab] && row.Expiry != "1h0m0s" {
					return fmt.Sprintf("after lines %q: d[%s] has expiry %s want 1h", o.Lines, lab, row.Expiry), step
				}
			}
		case "gc":
			if err := h.store.Gc(); err != nil {
				return "Gc: " + err.Error(), step
			}
			if d := rowsEqual(before, snapshot(h.store, h.prog), true); d != "" {
				return "GC (nothing is older than its expiry) changed the store: " + d, step
			}
		case "unload":
			if !h.loaded {
				continue
			}
			h.rt.UnloadProgram(h.prog)
			h.loaded = false
			h.feed("inc") // must not reach the unloaded program
			if d := rowsEqual(before, snapshot(h.store, h.prog), false); d != "" {
				return "a line fed after unload changed the program's metrics: " + d, step
			}
			// after an unload the next load is a fresh start for the model
			h.decls = nil
		}
		if s := scrape(h.reg); s != "" {
			return s, step
		}
		_ = time.Now
		_ = datum.GetInt
	}
	if w := histogramsConsistent(h.store, h.prog); w != "" {
		return "after the last step: " + w, len(full) - 3
	}
	return "", -1
}
