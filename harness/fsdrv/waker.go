// Package fsdrv holds the filesystem / waker driver shared by the tailer monitors.
package fsdrv

import (
	"sync"
	"time"
)

// StepWaker is a waker.Waker under the harness's control: Broadcast wakes
// every goroutine currently blocked on Wake(), and Waiting reports how many
// have come back to wait since the last broadcast — a logical barrier: when
// Waiting() equals the number of live pollers they are all idle again.
type StepWaker struct {
	mu      sync.Mutex
	ch      chan struct{}
	waiting int
}

func NewStepWaker() *StepWaker { return &StepWaker{ch: make(chan struct{})} }

// Wake implements waker.Waker.
func (w *StepWaker) Wake() <-chan struct{} {
	w.mu.Lock()
	defer w.mu.Unlock()
	w.waiting++
	return w.ch
}

func (w *StepWaker) Broadcast() {
	w.mu.Lock()
	close(w.ch)
	w.ch = make(chan struct{})
	w.waiting = 0
	w.mu.Unlock()
}

func (w *StepWaker) Waiting() int {
	w.mu.Lock()
	defer w.mu.Unlock()
	return w.waiting
}

// Await polls until cond holds; false when the watchdog fires.
func Await(cond func() bool, watchdog time.Duration) bool {
	deadline := time.Now().Add(watchdog)
	for i := 0; ; i++ {
		if cond() {
			return true
		}
		if time.Now().After(deadline) {
			return false
		}
		if i < 200 {
			time.Sleep(20 * time.Microsecond)
		} else {
			time.Sleep(time.Millisecond)
		}
	}
}
