// C01 — compiled programs compute what the language reference says.
// Monitors: (1) independent reference interpreter (refsem) vs the real
// compiler+VM after every line; (2) metamorphic: fully- vs minimally-
// parenthesised rendering of the same AST must agree; (3) the documented
// forms of docs/Language.md must compile.
package c01

import (
	"fmt"
	"runtime"
	"sort"
	"strings"
	"testing"

	"github.com/google/mtail/internal/metrics/datum"
	"github.com/google/mtail/verif/ev"
	"github.com/google/mtail/verif/gen"
	"github.com/google/mtail/verif/mt"
	"github.com/google/mtail/verif/refsem"
)

type witness struct {
	Program    string   `json:"program"`
	ProgramAlt string   `json:"program_other_rendering,omitempty"`
	Lines      []string `json:"lines"`
	FailLine   int      `json:"failing_line_index"`
	What       string   `json:"what"`
	RealErr    string   `json:"real_runtime_error,omitempty"`
	RefErr     string   `json:"reference_runtime_error,omitempty"`
	Real       string   `json:"real_store,omitempty"`
}

// runCase returns (class, witness) of the first disagreement, or "".
func runCase(p *gen.Program, srcs []string, lines []string, elseShares bool) (class string, w *witness, trace map[string]int) {
	defer func() {
		if r := recover(); r != nil {
			class, w = "harness-panic", &witness{Program: srcs[0], Lines: lines, What: fmt.Sprint("harness panic: ", r)}
		}
	}()
	var progs []*mt.Prog
	defer func() {
		for _, pr := range progs {
			pr.Close()
		}
	}()
	for _, src := range srcs {
		pr, err := mt.Load(mt.UniqueName("c01p"), src, mt.VMOpts{})
		if err != nil {
			return "compile-rejected", &witness{Program: src, What: "well-typed generated program rejected: " + err.Error()}, nil
		}
		progs = append(progs, pr)
	}
	ref := refsem.New(p)
	ref.ElseSharesFlag = elseShares
	for li, line := range lines {
		refErr := ref.Line("logfile", line)
		if ref.Unspecified != "" {
			return "skipped", nil, ref.Trace
		}
		for pi, pr := range progs {
			realErr := pr.Line("logfile", line)
			w := &witness{Program: srcs[pi], Lines: lines[:li+1], FailLine: li}
			if realErr != refErr {
				w.What = fmt.Sprintf("runtime error raised: real=%v reference=%v", realErr, refErr)
				w.RealErr, w.RefErr = pr.VM.RuntimeErrorString(), ref.ErrMsg
				w.Real = mt.Dump(pr.Obj.Metrics, false)
				return "error-bit", w, nil
			}
			if d := mt.CompareRef(pr.Obj.Metrics, ref.State, true); d != "" {
				w.What = d
				w.Real = mt.Dump(pr.Obj.Metrics, false)
				return "store-differs", w, nil
			}
		}
		if len(progs) == 2 {
			if a, b := mt.Dump(progs[0].Obj.Metrics, false), mt.Dump(progs[1].Obj.Metrics, false); a != b {
				return "rendering-differs", &witness{Program: srcs[0], ProgramAlt: srcs[1], Lines: lines[:li+1], FailLine: li, What: "fully and minimally parenthesised renderings disagree", Real: a + "---\n" + b}, nil
			}
		}
	}
	return "", nil, ref.Trace
}

// documented forms from docs/Language.md that must be accepted.
var documented = []struct{ name, src string }{
	{"const-prefix", "counter c\nconst PREFIX /^\\w+\\W+\\d+ /\nPREFIX {\n  c++\n}\n"},
	{"const-first-concat", "counter c\nconst PREFIX /^\\w+\\W+\\d+ /\nPREFIX + /foo/ {\n  c++\n}\n"},
	{"const-middle-concat", "counter maybe_ipv4\nconst IPv4 /(?P<ip>\\d+\\.\\d+\\.\\d+\\.\\d+)/\n/something with an / + IPv4 + / address/ {\n  maybe_ipv4++\n}\n"},
	{"cond-forms", "counter a\ngauge variable\n/foo/ {\n  a++\n}\nvariable > 0 {\n  a++\n}\n/foo/ && variable > 0 {\n  variable = 1\n}\n"},
	{"else", "counter a\n/foo/ {\n  a++\n} else {\n  a += 2\n}\n"},
	{"otherwise", "counter a\n/foo/ {\n  /foo1/ {\n    a++\n  }\n  /foo2/ {\n    a++\n  }\n  otherwise {\n    a += 3\n  }\n}\n"},
	{"capture-same-expr", "counter nonzero_positives\n/(?P<x>\\d+)/ && $x > 1 {\n  nonzero_positives++\n}\n"},
	{"dimensioned", "counter transfers_total by operation, module\n/(?P<operation>\\S+) (\\S+) \\[\\S+\\] (\\S+) \\(\\S*\\) \\S+ (?P<bytes>\\d+)/ {\n  transfers_total[$operation][$3]++\n}\n"},
	{"decorator", "counter variable\ndef syslog {\n  /(?P<date>\\w+\\s+\\d+\\s+\\d+:\\d+:\\d+)/ {\n    strptime($date, \"Jan  2 15:04:05\")\n    next\n  }\n}\n@syslog {\n  /some event/ {\n    variable++\n  }\n}\n"},
	{"del-after", "gauge duration by session\nhidden gauge session_start by session\n/end (?P<session>\\w+)/ {\n  duration[$session] = timestamp() - session_start[$session]\n  del session_start[$session] after 24h\n}\n"},
	{"stop", "getfilename() !~ /apache.access.log/ {\n  stop\n}\n"},
	{"as-limit-hidden", "counter lines_total as \"line-count\"\nhidden counter login_failures\ncounter bytes_total by operation limit 500\n/$/ {\n  lines_total++\n  login_failures++\n  bytes_total[\"x\"]++\n}\n"},
}

// operatorGrid: every Int operator on RUNTIME operands (captures, so the
// optimiser folds nothing) over all pairs of small values incl. negatives and
// zero, against the arithmetic the language reference names (Go's, as the
// reference delegates to it): value or checked runtime error. Pairs whose
// result the reference leaves open (overflow, 0 ** negative) are skipped.
func operatorGrid(r *ev.Run) {
	vals := []int64{-9, -3, -2, -1, 0, 1, 2, 3, 5, 10, 63}
	type exp struct {
		v    int64
		err  bool
		skip bool
	}
	expect := func(op string, a, b int64) exp {
		switch op {
		case "+":
			return exp{v: a + b}
		case "-":
			return exp{v: a - b}
		case "*":
			return exp{v: a * b}
		case "/":
			if b == 0 {
				return exp{err: true}
			}
			return exp{v: a / b}
		case "%":
			if b == 0 {
				return exp{err: true}
			}
			return exp{v: a % b}
		case "**":
			switch {
			case b >= 0:
				v := int64(1)
				for i := int64(0); i < b; i++ {
					v *= a
					if v > 1<<53 || v < -(1<<53) {
						return exp{skip: true}
					}
				}
				return exp{v: v}
			case a == 0:
				return exp{skip: true}
			case a == 1:
				return exp{v: 1}
			case a == -1:
				if b%2 == 0 {
					return exp{v: 1}
				}
				return exp{v: -1}
			}
			return exp{v: 0} // |a| > 1: a fraction, truncated
		case "<<":
			if b < 0 {
				return exp{err: true}
			}
			return exp{v: a << uint(b)}
		case ">>":
			if b < 0 {
				return exp{err: true}
			}
			return exp{v: a >> uint(b)}
		case "&":
			return exp{v: a & b}
		case "|":
			return exp{v: a | b}
		case "^":
			return exp{v: a ^ b}
		}
		return exp{skip: true}
	}
	for _, op := range []string{"+", "-", "*", "/", "%", "**", "<<", ">>", "&", "|", "^"} {
		src := "gauge g\n/^i (-?\\d+) (-?\\d+)$/ {\n  g = $1 " + op + " $2\n}\n"
		p, err := mt.Load(mt.UniqueName("c01grid"), src, mt.VMOpts{})
		if err != nil {
			r.Violation("documented-form-rejected-operator-grid", map[string]any{"program": src, "error": err.Error()})
			continue
		}
		for _, a := range vals {
			for _, b := range vals {
				e := expect(op, a, b)
				if e.skip {
					r.Count("operator_grid_pairs_unspecified", 1)
					continue
				}
				line := fmt.Sprintf("i %d %d", a, b)
				errd := p.Line("f", line)
				d, _ := p.Obj.Metrics[0].GetDatum()
				got := datum.GetInt(d)
				r.Eval(1)
				r.Count("operator_grid_pairs", 1)
				if errd != e.err || (!e.err && got != e.v) {
					r.Violation("operator-grid", map[string]any{"program": src, "line": line, "what": fmt.Sprintf("%d %s %d on run-time operands: got %d (runtime error: %v), the reference arithmetic gives %d (error: %v)", a, op, b, got, errd, e.v, e.err), "runtime_error": p.VM.RuntimeErrorString()})
					break
				}
			}
		}
		p.Close()
	}
}

func TestC01(t *testing.T) {
	r := ev.Start(t, "C01", "exploration")
	defer r.Finish()
	r.Rule("programs drawn from the harness's typed grammar (gen), rendered twice (fully / minimally parenthesised), compiled with the real compiler and run line by line next to the reference interpreter (refsem); store snapshot, runtime-error bit and timestamps set by settime compared after EVERY line. Non-trivial: at least one line changed the store and >=2 different statement kinds executed; distinct by program text.")
	r.Assume(gen.Restrictions...)
	r.Assume("label sets the reference only read (never wrote) are optional in the comparison and must be zero-valued when present ('read creates datum' is not specified)",
		"Go's regexp and strconv are the trusted matcher / number parser")

	operatorGrid(r)
	for _, d := range documented {
		_, err := mt.Compile(mt.UniqueName("doc"), d.src)
		r.Eval(1)
		r.Count("documented_forms", 1)
		if err != nil {
			w := map[string]any{"form": d.name, "program": d.src, "error": err.Error()}
			if d.name == "const-first-concat" && strings.Contains(err.Error(), "syntax error") {
				r.Known("C01-b", w)
			} else {
				r.Violation("documented-form-rejected-"+d.name, w)
			}
		}
	}

	// pinned witnesses of the known findings: fixed program + line, expected
	// value of counter c by the reference semantics (worked out by hand)
	pinned := []struct {
		id, src, line string
		want          int64
	}{
		{"C01-a", "counter c\n/x/ {\n}\n/y/ {\n} else {\n  otherwise {\n    c++\n  }\n}\n", "x", 1},
		{"C01-f", "counter c\ndef d {\n  /a=(\\d+)/ {\n    next\n  }\n}\n@d {\n  /zzz/ {\n    @d {\n      c++\n    }\n  }\n  c += $1\n}\n", "a=3", 3},
	}
	for _, pw := range pinned {
		pr, err := mt.Load(mt.UniqueName("pin"), pw.src, mt.VMOpts{})
		r.Eval(1)
		if err != nil {
			r.Violation("pinned-rejected-"+pw.id, map[string]any{"program": pw.src, "error": err.Error()})
			continue
		}
		pr.Line("logfile", pw.line)
		got := mt.Dump(pr.Obj.Metrics, false)
		want := fmt.Sprintf("[]=%d", pw.want)
		if !strings.Contains(got, want) {
			r.Known(pw.id, map[string]any{"program": pw.src, "line": pw.line, "reference_c": pw.want, "real_store": got, "real_error": pr.VM.RuntimeErrorString()})
		}
		pr.Close()
	}

	n := ev.Pick(4000, 60000)
	nlines := ev.Pick(16, 24)
	rng := ev.NewRNG(ev.Seed(), "c01")
	feat := make([]map[string]int, n)
	ev.Parallel(n, runtime.GOMAXPROCS(0), func(i int) {
		g := rng.Sub(i)
		o := gen.Opts{ElseOtherwise: i%12 == 0, ErrHeavy: i%5 == 0, SelfNestedDeco: i%16 == 3}
		p := gen.Generate(g, o)
		full := (&gen.Renderer{Full: true, IndexStyle: g.Intn(2)}).Render(p)
		minimal := (&gen.Renderer{Full: false, IndexStyle: g.Intn(2)}).Render(p)
		lines := make([]string, nlines)
		for k := range lines {
			lines[k] = gen.GenLine(g)
		}
		class, w, trace := runCase(p, []string{minimal, full}, lines, false)
		r.Eval(1)
		if class == "skipped" {
			r.Count("cases_abandoned_unspecified", 1)
			return
		}
		if class != "" {
			if class == "error-bit" && p.Features["decorator-self-nested"] > 0 && strings.Contains(w.RealErr, "Not enough capture groups matched") {
				r.Known("C01-f", w)
				r.Count("known_C01f_cases", 1)
				return
			}
			if class != "compile-rejected" && p.Features["otherwise-in-else"] > 0 {
				// classifier for C01-a: the real behaviour equals the reference with
				// "else block shares the enclosing matched flag"
				if c2, _, _ := runCase(p, []string{minimal, full}, lines, true); c2 == "" {
					r.Known("C01-a", w)
					r.Count("known_C01a_cases", 1)
					return
				}
			}
			r.Violation(class, w)
			return
		}
		feat[i] = p.Features
		kinds := 0
		changed := false
		for k, v := range trace {
			if v > 0 {
				switch k {
				case "assign", "add-assign", "incdec", "observe", "del", "del-after":
					changed = true
				}
				kinds++
			}
		}
		for k, v := range trace {
			r.Count("executed_"+k, v)
		}
		if changed && kinds >= 2 {
			r.Distinct(minimal)
			if i < 2 {
				r.Sample(map[string]any{"program": minimal, "lines": lines[:4]})
			}
		}
	})
	tot := map[string]int{}
	for _, f := range feat {
		for k, v := range f {
			if v > 0 {
				tot[k]++
			}
		}
	}
	r.Set("programs_with_feature", tot)
	// floors: features that must have been exercised
	var missing []string
	for _, k := range []string{"else", "otherwise", "decorator", "const-fragment", "del", "del-after", "stop", "settime", "match-op", "len", "strtol", "tolower", "subst", "subst-re", "int()", "float()", "string(int)", "concat", "mixed-arith", "op~", "op<<", "op**", "op/", "op%", "cmp-string", "cmp-mixed", "logical&&", "logical||", "short-circuit-probe", "hidden", "histogram-observe", "named-capref", "optional-group"} {
		if tot[k] < 3 {
			missing = append(missing, k)
		}
	}
	sort.Strings(missing)
	if len(missing) > 0 {
		r.Inconclusive("features below floor: " + strings.Join(missing, ","))
	}
	for _, k := range []string{"executed_cond-taken", "executed_else-taken", "executed_otherwise-taken", "executed_next", "executed_del", "executed_stop"} {
		r.Floor(k, 20)
	}
}
