// Package mt wraps the real mtail compiler + VM for the monitors.
package mt

import (
	"context"
	"fmt"
	"strings"
	"sync/atomic"
	"time"

	"github.com/google/mtail/internal/logline"
	"github.com/google/mtail/internal/runtime/code"
	"github.com/google/mtail/internal/runtime/compiler"
	"github.com/google/mtail/internal/runtime/vm"
)

var seq int64

// UniqueName returns a process-unique program name.
func UniqueName(prefix string) string {
	return fmt.Sprintf("%s%d", prefix, atomic.AddInt64(&seq, 1))
}

// Compile compiles src with the real compiler.
//
// With default options the compiler comes from a pool of long-lived compilers
// (never used by two goroutines at once), as the runtime keeps one compiler for
// all the programs it ever loads: a compile must not depend on what the same
// compiler compiled before. A witness that does not reproduce from the program
// alone points at exactly that.
func Compile(name, src string, opts ...compiler.Option) (*code.Object, error) {
	if len(opts) == 0 {
		var c *compiler.Compiler
		select {
		case c = <-pool:
		default:
			var err error
			if c, err = compiler.New(); err != nil {
				return nil, err
			}
		}
		defer func() {
			if recover() != nil {
				panic(fmt.Sprintf("compiler panicked on program %q", src))
			}
			select {
			case pool <- c:
			default:
			}
		}()
		return c.Compile(name, strings.NewReader(src))
	}
	c, err := compiler.New(opts...)
	if err != nil {
		return nil, err
	}
	return c.Compile(name, strings.NewReader(src))
}

var pool = make(chan *compiler.Compiler, 32)

// Prog is one compiled program with its VM.
type Prog struct {
	Name string
	Obj  *code.Object
	VM   *vm.VM
}

type VMOpts struct {
	CurrentYear bool
	Loc         *time.Location
	HardCrash   bool
	LogErrors   bool // the binary's -vm_logs_runtime_errors default
}

// Load compiles src and creates a VM. The caller should Close() it.
func Load(name, src string, vo VMOpts, opts ...compiler.Option) (*Prog, error) {
	obj, err := Compile(name, src, opts...)
	if err != nil {
		return nil, err
	}
	if obj == nil {
		return nil, fmt.Errorf("compile returned neither object nor error")
	}
	v := vm.New(name, obj, vo.CurrentYear, vo.Loc, vo.LogErrors, false)
	v.HardCrash = vo.HardCrash
	return &Prog{Name: name, Obj: obj, VM: v}, nil
}

func errCount(name string) int64 {
	v := vm.ProgRuntimeErrors.Get(name)
	if v == nil {
		return 0
	}
	var n int64
	fmt.Sscan(v.String(), &n)
	return n
}

// Line processes one line; returns whether a runtime error was raised.
func (p *Prog) Line(filename, line string) bool {
	before := errCount(p.Name)
	p.VM.ProcessLogLine(context.Background(), logline.New(context.Background(), filename, line))
	return errCount(p.Name) != before
}

// Close drops the per-program global bookkeeping (expvar / prometheus vec).
func (p *Prog) Close() {
	vm.ProgRuntimeErrors.Delete(p.Name)
	vm.LineProcessingDurations.DeleteLabelValues(p.Name)
}
