package mt

import (
	"fmt"
	"math"
	"sort"
	"strings"

	"github.com/google/mtail/internal/metrics"
	"github.com/google/mtail/internal/metrics/datum"
	"github.com/google/mtail/verif/gen"
	"github.com/google/mtail/verif/refsem"
)

func tupleKey(ks []string) string {
	var b strings.Builder
	for _, k := range ks {
		fmt.Fprintf(&b, "%d:%s,", len(k), k)
	}
	return b.String()
}

func wantType(m *gen.Metric) metrics.Type {
	if m.Kind == "histogram" {
		return metrics.Buckets
	}
	switch m.Type {
	case gen.TFloat:
		return metrics.Float
	case gen.TString:
		return metrics.String
	}
	return metrics.Int
}

// CompareRef compares the real program's metrics with the reference state.
// It returns "" when they agree, else a description of the first difference.
// Label sets the reference only *referenced* (never wrote) are optional and
// must hold the zero value when present.
func CompareRef(real []*metrics.Metric, ref []*refsem.MetricState, checkTime bool) string {
	if len(real) != len(ref) {
		return fmt.Sprintf("program has %d metrics, reference %d", len(real), len(ref))
	}
	for i, ms := range ref {
		m := real[i]
		gm := ms.M
		name := gm.Name
		if gm.As != "" {
			name = gm.As
		}
		if m.Name != name {
			return fmt.Sprintf("metric %d is named %q want %q", i, m.Name, name)
		}
		if m.Type != wantType(gm) {
			return fmt.Sprintf("metric %s has value type %v want %v", m.Name, m.Type, wantType(gm))
		}
		if m.Hidden != gm.Hidden || m.Limit != gm.Limit || len(m.Keys) != len(gm.Keys) || !strings.EqualFold(m.Kind.String(), gm.Kind) {
			return fmt.Sprintf("metric %s descriptor differs: kind=%v hidden=%v limit=%d keys=%v", m.Name, m.Kind, m.Hidden, m.Limit, m.Keys)
		}
		m.RLock()
		lvs := append([]*metrics.LabelValue{}, m.LabelValues...)
		m.RUnlock()
		realBy := map[string]*metrics.LabelValue{}
		for _, lv := range lvs {
			k := tupleKey(lv.Labels)
			if _, dup := realBy[k]; dup {
				return fmt.Sprintf("metric %s lists label set %q twice", m.Name, lv.Labels)
			}
			realBy[k] = lv
		}
		seen := map[string]bool{}
		for _, d := range ms.Data {
			k := tupleKey(d.Keys)
			seen[k] = true
			lv := realBy[k]
			if lv == nil {
				if d.Written {
					return fmt.Sprintf("metric %s: label set %q missing (reference value %s)", m.Name, d.Keys, refVal(gm, d))
				}
				continue
			}
			if s := datumDiff(gm, lv, d, checkTime); s != "" {
				return fmt.Sprintf("metric %s%q: %s", m.Name, d.Keys, s)
			}
		}
		var extra []string
		for k, lv := range realBy {
			if !seen[k] {
				extra = append(extra, fmt.Sprintf("%q=%s", lv.Labels, lv.Value.ValueString()))
			}
		}
		if len(extra) > 0 {
			sort.Strings(extra)
			return fmt.Sprintf("metric %s: label sets not in the reference: %s", m.Name, strings.Join(extra, " "))
		}
	}
	return ""
}

func refVal(gm *gen.Metric, d *refsem.Datum) string {
	if gm.Kind == "histogram" {
		return fmt.Sprintf("obs%v", d.Obs)
	}
	return d.V.String()
}

func datumDiff(gm *gen.Metric, lv *metrics.LabelValue, d *refsem.Datum, checkTime bool) string {
	if lv.Expiry != d.Expiry {
		return fmt.Sprintf("expiry %v want %v", lv.Expiry, d.Expiry)
	}
	// instants outside the int64-nanosecond range cannot be held by a datum
	if checkTime && d.Written && d.TimeSet && d.Time > -9e9 && d.Time < 9e9 {
		if got := lv.Value.TimeUTC().Unix(); got != d.Time {
			return fmt.Sprintf("timestamp %d want %d", got, d.Time)
		}
	}
	if gm.Kind == "histogram" {
		b, ok := lv.Value.(*datum.Buckets)
		if !ok {
			return fmt.Sprintf("datum is %T want *datum.Buckets", lv.Value)
		}
		var sum float64
		counts := make([]uint64, len(gm.Buckets)+1)
		for _, v := range d.Obs {
			sum += v
			idx := len(gm.Buckets)
			for bi, ub := range gm.Buckets {
				if v <= ub {
					idx = bi
					break
				}
			}
			counts[idx]++
		}
		if b.GetCount() != uint64(len(d.Obs)) {
			return fmt.Sprintf("histogram count %d want %d", b.GetCount(), len(d.Obs))
		}
		if s := b.GetSum(); s != sum && !(math.IsNaN(s) && math.IsNaN(sum)) {
			return fmt.Sprintf("histogram sum %v want %v", s, sum)
		}
		got := b.GetBuckets()
		for bi, ub := range append(append([]float64{}, gm.Buckets...), math.Inf(1)) {
			found := false
			for r, c := range got {
				if r.Max == ub {
					found = true
					if c != counts[bi] {
						return fmt.Sprintf("bucket le=%v count %d want %d", ub, c, counts[bi])
					}
				}
			}
			if !found {
				return fmt.Sprintf("bucket le=%v missing", ub)
			}
		}
		return ""
	}
	switch gm.Type {
	case gen.TInt:
		di, ok := lv.Value.(*datum.Int)
		if !ok {
			return fmt.Sprintf("datum is %T want *datum.Int", lv.Value)
		}
		if di.Get() != d.V.I {
			return fmt.Sprintf("value %d want %d", di.Get(), d.V.I)
		}
	case gen.TFloat:
		df, ok := lv.Value.(*datum.Float)
		if !ok {
			return fmt.Sprintf("datum is %T want *datum.Float", lv.Value)
		}
		if g := df.Get(); math.Float64bits(g) != math.Float64bits(d.V.F) && !(math.IsNaN(g) && math.IsNaN(d.V.F)) {
			return fmt.Sprintf("value %v want %v", g, d.V.F)
		}
	case gen.TString:
		ds, ok := lv.Value.(*datum.String)
		if !ok {
			return fmt.Sprintf("datum is %T want *datum.String", lv.Value)
		}
		if ds.Get() != d.V.S {
			return fmt.Sprintf("value %q want %q", ds.Get(), d.V.S)
		}
	}
	return ""
}

// Dump renders the real metrics canonically (sorted label sets), for witnesses
// and for real-vs-real comparisons. Timestamps are left out unless withTime.
func Dump(ms []*metrics.Metric, withTime bool) string {
	var b strings.Builder
	for _, m := range ms {
		fmt.Fprintf(&b, "%s %v %v hidden=%v keys=%v:", m.Name, m.Kind, m.Type, m.Hidden, m.Keys)
		m.RLock()
		var rows []string
		for _, lv := range m.LabelValues {
			row := fmt.Sprintf(" %q=", lv.Labels)
			switch d := lv.Value.(type) {
			case *datum.Int:
				row += fmt.Sprint(d.Get())
			case *datum.Float:
				row += fmt.Sprintf("%x", math.Float64bits(d.Get()))
				if math.IsNaN(d.Get()) {
					row = fmt.Sprintf(" %q=NaN", lv.Labels)
				}
			case *datum.String:
				row += fmt.Sprintf("%q", d.Get())
			case *datum.Buckets:
				row += fmt.Sprintf("count=%d sum=%v", d.GetCount(), d.GetSum())
				var bs []string
				for r, c := range d.GetBuckets() {
					bs = append(bs, fmt.Sprintf("%v:%d", r.Max, c))
				}
				sort.Strings(bs)
				row += fmt.Sprint(bs)
			}
			if lv.Expiry != 0 {
				row += fmt.Sprintf(" exp=%v", lv.Expiry)
			}
			if withTime {
				row += fmt.Sprintf(" @%d", lv.Value.TimeUTC().UnixNano())
			}
			rows = append(rows, row)
		}
		m.RUnlock()
		sort.Strings(rows)
		b.WriteString(strings.Join(rows, ""))
		b.WriteString("\n")
	}
	return b.String()
}
