// C05 — a line's effect never depends on earlier lines except through metrics.
// Monitor: differential. VM_A processes history H then probe l; a fresh VM_B
// (program recompiled) whose metrics are loaded with A's state after H
// processes l; stores and runtime-error bits must agree.
package c05

import (
	"fmt"
	"runtime"
	"testing"
	"time"

	"github.com/google/mtail/internal/metrics"
	"github.com/google/mtail/internal/metrics/datum"
	"github.com/google/mtail/verif/ev"
	"github.com/google/mtail/verif/gen"
	"github.com/google/mtail/verif/mt"
)

// copyState loads the state of src's metrics into dst's (freshly compiled) metrics.
func copyState(dst, src []*metrics.Metric) error {
	if len(dst) != len(src) {
		return fmt.Errorf("metric count differs: %d vs %d", len(dst), len(src))
	}
	for i, sm := range src {
		dm := dst[i]
		if dm.Name != sm.Name || dm.Type != sm.Type || len(dm.Keys) != len(sm.Keys) {
			return fmt.Errorf("metric %d differs between two compiles: %v vs %v", i, dm, sm)
		}
		// drop whatever the fresh program pre-created
		for _, lv := range append([]*metrics.LabelValue{}, dm.LabelValues...) {
			_ = dm.RemoveDatum(lv.Labels...)
		}
		for _, lv := range sm.LabelValues {
			d, err := dm.GetDatum(lv.Labels...)
			if err != nil {
				return err
			}
			ts := lv.Value.TimeUTC()
			switch v := lv.Value.(type) {
			case *datum.Int:
				datum.SetInt(d, v.Get(), ts)
			case *datum.Float:
				datum.SetFloat(d, v.Get(), ts)
			case *datum.String:
				datum.SetString(d, v.Get(), ts)
			case *datum.Buckets:
				nb := d.(*datum.Buckets)
				nb.Buckets = append([]datum.BucketCount{}, v.Buckets...)
				nb.Count, nb.Sum, nb.Time = v.Count, v.Sum, v.Time
			}
			// exact nanosecond timestamp (Set* keeps it, but zero time means "now")
			switch v := d.(type) {
			case *datum.Int:
				v.Time = lv.Value.TimeUTC().UnixNano()
			case *datum.Float:
				v.Time = lv.Value.TimeUTC().UnixNano()
			case *datum.String:
				v.Time = lv.Value.TimeUTC().UnixNano()
			}
			if lv.Expiry != 0 {
				if err := dm.ExpireDatum(lv.Expiry, lv.Labels...); err != nil {
					return err
				}
			}
		}
	}
	return nil
}

type row struct {
	key    string
	val    string
	ts     int64
	expiry time.Duration
}

func rows(ms []*metrics.Metric) map[string]row {
	out := map[string]row{}
	for i, m := range ms {
		for _, lv := range m.LabelValues {
			k := fmt.Sprintf("%d:%s%q", i, m.Name, lv.Labels)
			v := lv.Value.ValueString()
			if b, ok := lv.Value.(*datum.Buckets); ok {
				v = fmt.Sprintf("%d/%v/%v", b.GetCount(), b.GetSum(), b.GetBuckets())
			}
			out[k] = row{k, v, lv.Value.TimeUTC().UnixNano(), lv.Expiry}
		}
	}
	return out
}

// diff compares A and B after the probe. Timestamps must be equal, or both
// fall inside the wall-clock bracket of this probe (both are "now").
func diff(a, b map[string]row, t0, t1 int64) string {
	for k, ra := range a {
		rb, ok := b[k]
		if !ok {
			return fmt.Sprintf("%s present with history (%s), absent in the fresh copy", k, ra.val)
		}
		if ra.val != rb.val || ra.expiry != rb.expiry {
			return fmt.Sprintf("%s: with history %s exp=%v, fresh copy %s exp=%v", k, ra.val, ra.expiry, rb.val, rb.expiry)
		}
		if ra.ts != rb.ts {
			inA := ra.ts >= t0 && ra.ts <= t1
			inB := rb.ts >= t0 && rb.ts <= t1
			if !(inA && inB) {
				return fmt.Sprintf("%s: timestamp with history %s, fresh copy %s", k, time.Unix(0, ra.ts).UTC().Format(time.RFC3339Nano), time.Unix(0, rb.ts).UTC().Format(time.RFC3339Nano))
			}
		}
	}
	for k, rb := range b {
		if _, ok := a[k]; !ok {
			return fmt.Sprintf("%s absent with history, present in the fresh copy (%s)", k, rb.val)
		}
	}
	return ""
}

type witness struct {
	Program string   `json:"program"`
	History []string `json:"history"`
	Probe   string   `json:"probe_line"`
	What    string   `json:"what"`
	ErrA    string   `json:"runtime_error_with_history,omitempty"`
	ErrB    string   `json:"runtime_error_fresh,omitempty"`
}

func TestC05(t *testing.T) {
	r := ev.Start(t, "C05", "exploration")
	defer r.Finish()
	r.Rule("for every generated program and every prefix H of its line sequence: VM_A (has processed H) and a freshly compiled VM_B loaded with A's metric state both process the next line; resulting stores (values, label sets, expiry, timestamps) and runtime-error bits must agree. Programs come from the typed generator in a 'stateful' mix: strptime on captured/literal strings under three layouts (same text under different layouts, failing parses, repeats), failing conversions, stop, zero divisors, optional groups. Non-trivial: the probe line changed the store or raised an error; distinct by (program, history length).")
	r.Assume("timestamps are compared exactly unless both fall inside the probe's wall-clock bracket (both mean 'now')", "state is transferred through the public datum API only")
	// pinned shapes: per-line VM state that ordinary programs overwrite before
	// reading it (capture results behind a short-circuit or in a branch not
	// taken, the time register, the matched flag), each with a line sequence
	// that sets the state on one line and takes the other path on the next
	for _, pc := range []struct {
		src   string
		lines []string
	}{
		{"counter m by k\n/^(?P<sev>\\w+) (?P<rest>.*)$/ {\n  $sev == \"FATAL\" || $rest =~ /code=(?P<code>\\d+)/ {\n    m[$code]++\n  }\n}\n",
			[]string{"INFO code=17", "FATAL boom", "INFO code=3", "FATAL x", "INFO nothing"}},
		{"counter m by k\n/^(\\w+) (.*)$/ {\n  $1 == \"A\" || $2 =~ /v=(\\d+)/ {\n    m[$1]++\n  }\n}\n",
			[]string{"B v=1", "A zz", "B zz", "A v=2"}},
		{"counter m by k\ngauge g\n/^x (\\d+)/ {\n  g = $1\n} else {\n  /^y/ {\n    m[$1]++\n  }\n}\n",
			[]string{"x 5", "y", "x 6", "z", "y"}},
		{"gauge t\n/^T (\\S+)/ {\n  strptime($1, \"2006-01-02T15:04:05Z07:00\")\n}\n/^R/ {\n  t = timestamp()\n}\n",
			[]string{"T 2021-03-04T05:06:07Z", "R", "T bad", "R", "T 2019-12-31T23:59:59Z", "R"}},
		{"counter a\ncounter b\n/^p/ {\n  a++\n}\notherwise {\n  b++\n}\n",
			[]string{"p", "q", "p", "p", "q"}},
		{"counter a\n/^s/ {\n  stop\n}\n/./ {\n  a++\n}\n",
			[]string{"s", "t", "s", "s", "t"}},
		// a line on which an instruction panics inside the VM (an accepted
		// ill-typed shape, finding C04-d), then ordinary lines
		{"histogram h buckets 1, 2\ncounter n\n/^p/ {\n  h++\n}\n/./ {\n  n++\n}\n",
			[]string{"x", "p", "x", "p", "p", "x", "x"}},
		// the same failing line twice, then a good one (error logging on below)
		{"counter n\ngauge g\n/^v (\\S+)/ {\n  g = int($1)\n  n++\n}\n",
			[]string{"v 1", "v zz", "v zz", "v 2", "v zz", "v 3"}},
		{"counter n\n/^t (\\S+)/ {\n  strptime($1, \"2006-01-02\")\n  n++\n}\n",
			[]string{"t 2021-01-02", "t bad", "t bad", "t 2021-01-03", "t bad"}},
	} {
		for _, logErrors := range []bool{false, true} {
			a, err := mt.Load(mt.UniqueName("c05pa"), pc.src, mt.VMOpts{LogErrors: logErrors})
			if err != nil {
				r.Violation("pinned-shape-rejected", witness{Program: pc.src, What: err.Error()})
				continue
			}
			for k, probe := range pc.lines {
				b, err := mt.Load(mt.UniqueName("c05pb"), pc.src, mt.VMOpts{LogErrors: logErrors})
				if err != nil {
					break
				}
				if err := copyState(b.Obj.Metrics, a.Obj.Metrics); err != nil {
					b.Close()
					r.Violation("state-transfer", witness{Program: pc.src, What: err.Error()})
					break
				}
				t0 := time.Now().UnixNano()
				ea, eb := a.Line("logfile", probe), b.Line("logfile", probe)
				t1 := time.Now().UnixNano()
				w := witness{Program: pc.src, History: pc.lines[:k], Probe: probe}
				r.Eval(1)
				r.Count("pinned_shape_probes", 1)
				d := diff(rows(a.Obj.Metrics), rows(b.Obj.Metrics), t0, t1)
				b.Close()
				if ea != eb {
					w.What = fmt.Sprintf("runtime error raised with history=%v, in a fresh copy=%v", ea, eb)
					r.Violation("error-bit", w)
					break
				}
				if d != "" {
					w.What = d
					r.Violation("store-differs", w)
					break
				}
			}
			a.Close()
		}
	}
	n := ev.Pick(500, 15000)
	nlines := ev.Pick(20, 26)
	rng := ev.NewRNG(ev.Seed(), "c05")
	ev.Parallel(n, runtime.GOMAXPROCS(0), func(i int) {
		g := rng.Sub(i)
		p := gen.Generate(g, gen.Opts{Strptime: true, ErrHeavy: i%2 == 0, StateHeavy: true, ElseOtherwise: true, NoHist: i%3 == 0, DeadCapRefs: i%2 == 1})
		src := (&gen.Renderer{IndexStyle: g.Intn(2)}).Render(p)
		for _, f := range []string{"dead-capture-reference", "cond-expr||match", "cond-pattern||", "match-op"} {
			if p.Features[f] > 0 {
				r.Count("programs_with_"+f, 1)
			}
		}
		if p.Features["cond-expr||match"] > 0 && p.Features["dead-capture-reference"] > 0 && i < 200 {
			r.Sample(map[string]any{"program_with_unevaluated_capture_read": src})
		}
		// lines with many repeats so that memoised values recur
		pool := make([]string, 6)
		for k := range pool {
			pool[k] = gen.GenLine(g)
		}
		lines := make([]string, nlines)
		for k := range lines {
			if g.Intn(3) == 0 {
				lines[k] = gen.GenLine(g)
			} else {
				lines[k] = ev.PickOne(g, pool)
			}
		}
		vo := mt.VMOpts{LogErrors: i%3 == 2}
		a, err := mt.Load(mt.UniqueName("c05a"), src, vo)
		if err != nil {
			r.Count("compile_rejected", 1)
			return
		}
		defer a.Close()
		for k, probe := range lines {
			b, err := mt.Load(mt.UniqueName("c05b"), src, vo)
			if err != nil {
				r.Violation("second-compile-rejected", witness{Program: src, What: err.Error()})
				return
			}
			if err := copyState(b.Obj.Metrics, a.Obj.Metrics); err != nil {
				b.Close()
				r.Violation("state-transfer", witness{Program: src, What: err.Error()})
				return
			}
			before := rows(a.Obj.Metrics)
			t0 := time.Now().UnixNano()
			ea := a.Line("logfile", probe)
			eb := b.Line("logfile", probe)
			t1 := time.Now().UnixNano()
			ra, rb := rows(a.Obj.Metrics), rows(b.Obj.Metrics)
			w := witness{Program: src, History: lines[:k], Probe: probe}
			r.Eval(1)
			if ea != eb {
				w.What = fmt.Sprintf("runtime error raised with history=%v, in a fresh copy=%v", ea, eb)
				if ea {
					w.ErrA = a.VM.RuntimeErrorString()
				}
				if eb {
					w.ErrB = b.VM.RuntimeErrorString()
				}
				b.Close()
				r.Violation("error-bit", w)
				return
			}
			if d := diff(ra, rb, t0, t1); d != "" {
				w.What = d
				b.Close()
				r.Violation("store-differs", w)
				return
			}
			b.Close()
			changed := ea || len(before) != len(ra)
			if !changed {
				for kk, v := range ra {
					if before[kk] != v {
						changed = true
						break
					}
				}
			}
			if changed {
				r.Distinct(fmt.Sprintf("%s|%d", src, k))
				r.Count("probes_changing_store_or_erroring", 1)
			}
			if ea {
				r.Count("probes_with_runtime_error", 1)
			}
		}
		r.Count("programs", 1)
		for _, f := range []string{"strptime", "stop", "failing-conversion", "settime"} {
			if p.Features[f] > 0 {
				r.Count("programs_with_"+f, 1)
			}
		}
		if i < 2 {
			r.Sample(map[string]any{"program": src, "lines": lines[:5]})
		}
	})
	r.Floor("programs_with_strptime", 50)
	r.Floor("probes_with_runtime_error", 100)
}
