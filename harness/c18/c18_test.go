// C18 — every matching log path is tailed, once.
// Monitor: reference matcher (filepath.Match semantics over a model tree +
// ignore regex on the base name) vs a real tailer.Tailer on the real
// filesystem; observed behaviourally: after every step and pattern poll a
// unique probe line is appended to EVERY file of the tree and must arrive
// exactly once from matching files and never from the others.
package c18

import (
	"context"
	"expvar"
	"fmt"
	"net"
	"os"
	"path/filepath"
	"regexp"
	"runtime"
	"sort"
	"strconv"
	"strings"
	"sync"
	"testing"
	"time"

	"github.com/google/mtail/internal/logline"
	"github.com/google/mtail/internal/tailer"
	"github.com/google/mtail/verif/ev"
	"github.com/google/mtail/verif/fsdrv"
)

const watchdog = 60 * time.Second

type step struct {
	Op   string `json:"op"` // create delete rename mkdir rmdir mksock rmsock dir-to-file file-to-dir
	Path string `json:"path"`
	To   string `json:"to,omitempty"`
}

type config struct {
	Patterns []string `json:"patterns"` // relative to the tree root; may be made absolute
	Absolute bool     `json:"absolute"`
	Ignore   string   `json:"ignore_regex"`
}

// (file names are byte strings: '#', '?' and '%' mean nothing special in them)
var names = []string{"a.log", "b.log", "x.log", "a.txt", "a#1.log", "a%41.log", "aA.log", "a?b.log"}
var dirs = []string{"d0", "d1"}

func logCount() int {
	n, _ := strconv.Atoi(expvar.Get("log_count").String())
	return n
}

func dump() string {
	buf := make([]byte, 1<<20)
	return string(buf[:runtime.Stack(buf, true)])
}

type world struct {
	root  string
	files map[string]bool // relative path -> regular file
	dirs  map[string]bool // relative path -> directory (besides d0,d1)
	socks map[string]bool // relative path -> unix socket file (matches patterns, can never be tailed as a log file)
}

// expected computes the set of relative paths that must be tailed.
func (w *world) expected(c config) []string {
	var ig *regexp.Regexp
	if c.Ignore != "" {
		ig = regexp.MustCompile(c.Ignore)
	}
	var out []string
	for f := range w.files {
		ok := false
		for _, p := range c.Patterns {
			// a pattern has as many path elements as the path it can match
			// (a pattern denotes paths: its spelling — doubled slashes, "." and
			// ".." elements — does not matter)
			if m, _ := filepath.Match(filepath.Clean(p), f); m {
				ok = true
			}
		}
		if ok && (ig == nil || !ig.MatchString(filepath.Base(f))) {
			out = append(out, f)
		}
	}
	sort.Strings(out)
	return out
}

func runHistory(base string, idx int, c config, hist []step) (what string, inconclusive bool, probes int) {
	root := filepath.Join(base, fmt.Sprintf("t%d", idx))
	w := &world{root: root, files: map[string]bool{}, dirs: map[string]bool{}, socks: map[string]bool{}}
	for _, d := range dirs {
		_ = os.MkdirAll(filepath.Join(root, d), 0o755)
	}
	defer os.RemoveAll(root)
	// initial content: one matching and one other file
	for _, f := range []string{"d0/a.log", "d1/a.txt"} {
		_ = os.WriteFile(filepath.Join(root, f), []byte("old\n"), 0o644)
		w.files[f] = true
	}
	oldwd, _ := os.Getwd()
	if err := os.Chdir(root); err != nil {
		return "chdir: " + err.Error(), true, 0
	}
	defer os.Chdir(oldwd)
	var pats []string
	for _, p := range c.Patterns {
		if c.Absolute {
			pats = append(pats, root+"/"+p) // not Join: keep the pattern's spelling
		} else {
			pats = append(pats, p)
		}
	}
	streamW, patternW := fsdrv.NewStepWaker(), fsdrv.NewStepWaker()
	ctx, cancel := context.WithCancel(context.Background())
	lines := make(chan *logline.LogLine)
	var mu sync.Mutex
	got := map[string]int{}
	gotFrom := map[string]string{}
	drained := make(chan struct{})
	go func() {
		for l := range lines {
			mu.Lock()
			got[l.Line]++
			gotFrom[l.Line] = l.Filename
			mu.Unlock()
		}
		close(drained)
	}()
	var wg sync.WaitGroup
	base0 := logCount()
	opts := []tailer.Option{tailer.LogPatterns(pats), tailer.LogstreamPollWaker(streamW), tailer.LogPatternPollWaker(patternW)}
	if c.Ignore != "" {
		opts = append([]tailer.Option{tailer.IgnoreRegex(c.Ignore)}, opts...)
	}
	_, err := tailer.New(ctx, &wg, lines, opts...)
	if err != nil {
		cancel()
		return "tailer.New: " + err.Error(), true, 0
	}
	fail := func(s string, inc bool) (string, bool, int) {
		d := dump()
		cancel()
		streamW.Broadcast()
		patternW.Broadcast()
		return s + "\n" + d, inc, probes
	}
	npat := len(pats)
	want := map[string]bool{} // probe lines that must arrive exactly once
	never := map[string]string{}
	observe := func(k int) (string, bool) {
		exp := w.expected(c)
		// pattern poll, then every live stream back at its waker
		patternW.Broadcast()
		if !fsdrv.Await(func() bool { return patternW.Waiting() >= npat }, watchdog) {
			return "barrier: pattern pollers did not return to their waker", true
		}
		streamW.Broadcast()
		if !fsdrv.Await(func() bool { return logCount()-base0 == len(exp) }, watchdog) {
			return fmt.Sprintf("after step %d log_count says %d paths are tailed, the model expects %d: %v", k, logCount()-base0, len(exp), exp), false
		}
		if !fsdrv.Await(func() bool { return streamW.Waiting() >= len(exp) }, watchdog) {
			return fmt.Sprintf("barrier: %d streams expected at the waker, %d arrived", len(exp), streamW.Waiting()), true
		}
		// probe every file of the tree
		expSet := map[string]bool{}
		for _, f := range exp {
			expSet[f] = true
		}
		for f := range w.files {
			probe := fmt.Sprintf("probe-%d-%s", k, f)
			fh, err := os.OpenFile(filepath.Join(root, f), os.O_APPEND|os.O_WRONLY, 0o644)
			if err != nil {
				return "probe append: " + err.Error(), true
			}
			fh.WriteString(probe + "\n")
			fh.Close()
			probes++
			if expSet[f] {
				want[probe] = true
			} else {
				never[probe] = f
			}
		}
		streamW.Broadcast()
		if !fsdrv.Await(func() bool { return streamW.Waiting() >= len(exp) }, watchdog) {
			return "barrier: streams did not return to the waker after the probe", true
		}
		return "", false
	}
	if !fsdrv.Await(func() bool { return patternW.Waiting() >= npat }, watchdog) {
		return fail("startup: pattern pollers did not reach their waker", true)
	}
	if s, inc := observe(-1); s != "" {
		return fail(s, inc)
	}
	for k, st := range hist {
		p := filepath.Join(root, st.Path)
		switch st.Op {
		case "create":
			if w.files[st.Path] || w.dirs[st.Path] {
				continue
			}
			_ = os.WriteFile(p, []byte("old\n"), 0o644)
			w.files[st.Path] = true
		case "delete":
			if !w.files[st.Path] {
				continue
			}
			_ = os.Remove(p)
			delete(w.files, st.Path)
		case "rename":
			if !w.files[st.Path] || w.files[st.To] || w.dirs[st.To] {
				continue
			}
			_ = os.Rename(p, filepath.Join(root, st.To))
			delete(w.files, st.Path)
			w.files[st.To] = true
		case "mkdir":
			if w.files[st.Path] || w.dirs[st.Path] {
				continue
			}
			_ = os.Mkdir(p, 0o755)
			w.dirs[st.Path] = true
		case "rmdir":
			if !w.dirs[st.Path] {
				continue
			}
			_ = os.Remove(p)
			delete(w.dirs, st.Path)
		case "mksock":
			// a node the patterns match but that is no log file: it must be
			// passed over, whatever else the patterns match
			if w.socks[st.Path] {
				continue
			}
			l, err := net.Listen("unix", p)
			if err != nil {
				return fail("mksock: "+err.Error(), true)
			}
			l.(*net.UnixListener).SetUnlinkOnClose(false)
			l.Close()
			w.socks[st.Path] = true
		case "rmsock":
			if !w.socks[st.Path] {
				continue
			}
			_ = os.Remove(p)
			delete(w.socks, st.Path)
		case "dir-to-file":
			// the name never disappears between two polls: a directory one
			// poll, a regular file the next
			if !w.dirs[st.Path] {
				continue
			}
			_ = os.Remove(p)
			_ = os.WriteFile(p, []byte("old\n"), 0o644)
			delete(w.dirs, st.Path)
			w.files[st.Path] = true
		case "file-to-dir":
			if !w.files[st.Path] {
				continue
			}
			_ = os.Remove(p)
			_ = os.Mkdir(p, 0o755)
			delete(w.files, st.Path)
			w.dirs[st.Path] = true
		}
		// let streams on vanished paths notice and end before the next poll
		streamW.Broadcast()
		if s, inc := observe(k); s != "" {
			return fail(s, inc)
		}
	}
	cancel()
	streamW.Broadcast()
	patternW.Broadcast()
	done := make(chan struct{})
	go func() { wg.Wait(); close(done) }()
	select {
	case <-done:
	case <-time.After(watchdog):
		return "shutdown: tailer did not finish\n" + dump(), true, probes
	}
	<-drained
	mu.Lock()
	defer mu.Unlock()
	for p := range want {
		if got[p] != 1 {
			return fmt.Sprintf("probe %q (a matching, not ignored regular file) was delivered %d times, want exactly once", p, got[p]), false, probes
		}
	}
	for p, f := range never {
		if got[p] != 0 {
			return fmt.Sprintf("probe %q was delivered %d times (as %s) although %s must not be tailed", p, got[p], gotFrom[p], f), false, probes
		}
	}
	return "", false, probes
}

func TestC18(t *testing.T) {
	r := ev.Start(t, "C18", "exploration")
	defer r.Finish()
	r.Rule("tree of 2 directories x 4 names (+ directories with matching names); 1-3 overlapping patterns from {d0/*.log, d0/a*, */x.log, d1/a.log, */*.log, d?/b.log, and literal patterns spelled non-canonically (d1/./a.log, d0/../d1/a.log, d0//x.log) or with glob quoting (d0/b\\.log)}, absolute or relative (the process chdirs into the tree), optional ignore regex from {^b, \\.txt$, log}; histories over {create, delete, rename to a matching / non-matching name, mkdir with a matching name, rmdir, a unix socket file with a matching name that sorts first (never tailable, must be passed over), directory replaced by a file of the same name and back within one step}: every history of length <=2 (quick) / <=3 (thorough) over a reduced step set for three fixed configurations, plus random length-10/15 histories with random configurations. After each step + pattern poll + stream barrier a unique probe line is appended to every file; at the end every probe of a file in the model's expected set must have been delivered exactly once, every other probe never; log_count must equal the expected set's size after every step. Non-trivial: history in which the expected set changed at least twice; distinct by (config, history).")
	r.Assume("reference matcher = path/filepath.Match applied to model paths (independent of Glob's filesystem walk)", "a step is followed by a stream wake so that streams on vanished paths end before the next pattern poll")
	base, _ := os.MkdirTemp(ev.Scratch(), "c18")
	defer os.RemoveAll(base)
	type job struct {
		c config
		h []step
	}
	var jobs []job
	fixed := []config{
		{Patterns: []string{"d0/*.log", "d0/a*"}, Absolute: true},
		{Patterns: []string{"*/x.log", "d1/a.log", "d0/*.log"}, Absolute: false, Ignore: "^b"},
		{Patterns: []string{"*/*.log"}, Absolute: true, Ignore: `x\.log$`},
		// literal patterns spelled non-canonically / with glob quoting, overlapping a wildcard pattern
		{Patterns: []string{"d0//a.log", "d0/*.log", `d0/b\.log`}, Absolute: true},
	}
	alpha := []step{
		{Op: "create", Path: "d0/b.log"}, {Op: "create", Path: "d1/x.log"}, {Op: "create", Path: "d0/x.log"},
		{Op: "delete", Path: "d0/a.log"}, {Op: "delete", Path: "d0/b.log"},
		{Op: "rename", Path: "d0/a.log", To: "d0/b.log"}, {Op: "rename", Path: "d0/a.log", To: "d0/a.txt"}, {Op: "rename", Path: "d1/a.txt", To: "d1/a.log"}, {Op: "rename", Path: "d0/b.log", To: "d0/a.log"},
		{Op: "mkdir", Path: "d0/c.log"}, {Op: "rmdir", Path: "d0/c.log"}, {Op: "create", Path: "d0/a.log"},
		{Op: "dir-to-file", Path: "d0/c.log"}, {Op: "file-to-dir", Path: "d0/b.log"}, {Op: "dir-to-file", Path: "d0/b.log"},
		{Op: "mksock", Path: "d0/0.log"},
		{Op: "create", Path: "d0/a#1.log"}, {Op: "create", Path: "d0/a%41.log"}, {Op: "create", Path: "d0/aA.log"},
	}
	maxLen := ev.Pick(2, 3)
	var rec func(p []step, c config)
	rec = func(p []step, c config) {
		if len(p) > 0 {
			jobs = append(jobs, job{c, append([]step{}, p...)})
		}
		if len(p) == maxLen {
			return
		}
		for _, s := range alpha {
			rec(append(p, s), c)
		}
	}
	for _, c := range fixed {
		rec(nil, c)
	}
	r.Set("exhaustive_histories", len(jobs))
	rng := ev.NewRNG(ev.Seed(), "c18")
	allPats := []string{"d0/*.log", "d0/a*", "*/x.log", "d1/a.log", "*/*.log", "d?/b.log", "d1/./a.log", "d0/../d1/a.log", `d0/b\.log`, "d0//x.log", `d1/a\.l*`}
	for i := 0; i < ev.Pick(120, 3000); i++ {
		g := rng.Sub(i)
		c := config{Absolute: g.Bool(), Ignore: ev.PickOne(g, []string{"", "", "^b", `\.txt$`, "log"})}
		np := g.Range(1, 3)
		off := g.Intn(len(allPats))
		for k := 0; k < np; k++ {
			c.Patterns = append(c.Patterns, allPats[(off+k*2)%len(allPats)])
		}
		var h []step
		for k := 0; k < ev.Pick(10, 15); k++ {
			d := ev.PickOne(g, dirs)
			n := ev.PickOne(g, names)
			switch g.Intn(10) {
			case 9:
				h = append(h, step{Op: ev.PickOne(g, []string{"mksock", "mksock", "rmsock"}), Path: d + "/0.log"})
			case 7:
				h = append(h, step{Op: "dir-to-file", Path: d + "/" + ev.PickOne(g, []string{"c.log", "x.log"})})
			case 8:
				h = append(h, step{Op: "file-to-dir", Path: d + "/" + ev.PickOne(g, []string{"c.log", "x.log", n})})
			case 0, 1:
				h = append(h, step{Op: "create", Path: d + "/" + n})
			case 2:
				h = append(h, step{Op: "delete", Path: d + "/" + n})
			case 3, 4:
				h = append(h, step{Op: "rename", Path: d + "/" + n, To: ev.PickOne(g, dirs) + "/" + ev.PickOne(g, names)})
			case 5:
				h = append(h, step{Op: "mkdir", Path: d + "/" + ev.PickOne(g, []string{"c.log", "x.log"})})
			default:
				h = append(h, step{Op: "rmdir", Path: d + "/" + ev.PickOne(g, []string{"c.log", "x.log"})})
			}
		}
		jobs = append(jobs, job{c, h})
	}
	inconc := 0
	for i, j := range jobs {
		what, inc, probes := runHistory(base, i, j.c, j.h)
		r.Eval(1)
		r.Count("probes_appended", probes)
		if what != "" {
			if inc {
				inconc++
				r.Inconclusive(strings.SplitN(what, "\n", 2)[0])
				if inconc > 3 {
					break
				}
				continue
			}
			r.Violation(cls(what), map[string]any{"config": j.c, "history": j.h, "what": what})
			if r.Violations() > 10 {
				break
			}
			continue
		}
		if len(j.h) >= 2 {
			r.Distinct(fmt.Sprintf("%+v %+v", j.c, j.h))
		}
		if i%331 == 3 {
			r.Sample(map[string]any{"config": j.c, "history": j.h})
		}
	}
}

func cls(w string) string {
	switch {
	case strings.Contains(w, "log_count says"):
		return "tailed-set-size-differs"
	case strings.Contains(w, "must not be tailed"):
		return "non-matching-path-tailed"
	case strings.Contains(w, "want exactly once"):
		return "probe-not-exactly-once"
	}
	return "other"
}
