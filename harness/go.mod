module github.com/google/mtail/verif

go 1.21.1

require (
	github.com/anishathalye/porcupine v1.3.0
	github.com/google/mtail v0.0.0
	github.com/prometheus/client_golang v1.20.4
	github.com/prometheus/client_model v0.6.1
	github.com/prometheus/common v0.60.0
)

require (
	contrib.go.opencensus.io/exporter/jaeger v0.2.1 // indirect
	github.com/beorn7/perks v1.0.1 // indirect
	github.com/cespare/xxhash/v2 v2.3.0 // indirect
	github.com/golang/glog v1.2.2 // indirect
	github.com/golang/groupcache v0.0.0-20210331224755-41bb18bfe9da // indirect
	github.com/golang/protobuf v1.5.3 // indirect
	github.com/google/go-cmp v0.6.0 // indirect
	github.com/klauspost/compress v1.17.9 // indirect
	github.com/munnerz/goautoneg v0.0.0-20191010083416-a7dc8b61c822 // indirect
	github.com/pkg/errors v0.9.1 // indirect
	github.com/prometheus/procfs v0.15.1 // indirect
	github.com/uber/jaeger-client-go v2.25.0+incompatible // indirect
	go.opencensus.io v0.24.0 // indirect
	golang.org/x/sync v0.7.0 // indirect
	golang.org/x/sys v0.26.0 // indirect
	google.golang.org/api v0.105.0 // indirect
	google.golang.org/genproto v0.0.0-20230410155749-daa745c078e1 // indirect
	google.golang.org/grpc v1.56.3 // indirect
	google.golang.org/protobuf v1.34.2 // indirect
)

replace github.com/google/mtail => /repo
