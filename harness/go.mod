module github.com/google/mtail/verif

go 1.21.1

require (
	github.com/anishathalye/porcupine v1.3.0
	github.com/google/mtail v0.0.0
)

require (
	github.com/golang/glog v1.2.2 // indirect
	github.com/pkg/errors v0.9.1 // indirect
)

replace github.com/google/mtail => /repo
