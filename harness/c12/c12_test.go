//go:build verif

// C12 — no export attempt can leave metrics locked or stall processing.
// Fault enumeration: every exporter x every failure point of a small store
// grid; after each attempt a time-free oracle (TryLock on every metric, no
// goroutine parked in EmitLabelSets) plus a progress probe.
package c12

import (
	"bytes"
	"context"
	"errors"
	"flag"
	"fmt"
	"io"
	"net"
	"net/http"
	"net/http/httptest"
	"os"
	"path/filepath"
	"runtime"
	"strings"
	"sync"
	"sync/atomic"
	"testing"
	"time"

	"github.com/google/mtail/internal/exporter"
	"github.com/google/mtail/internal/metrics"
	"github.com/google/mtail/internal/metrics/datum"
	"github.com/google/mtail/internal/mtail"
	"github.com/google/mtail/verif/ev"
	"github.com/prometheus/client_golang/prometheus"
	"github.com/prometheus/client_golang/prometheus/promhttp"
)

type fault struct {
	Exporter string `json:"exporter"`
	Kind     string `json:"fault"`
	Metric   int    `json:"metric,omitempty"`
	LabelSet int    `json:"label_set,omitempty"`
	K        int    `json:"k,omitempty"`
	M, L     int
}

// buildStore: M metrics x L label sets; bad describes an unrepresentable item.
func buildStore(M, L int, bad *fault) (*metrics.Store, []*metrics.Metric) {
	st := metrics.NewStore()
	var ms []*metrics.Metric
	for i := 0; i < M; i++ {
		name := fmt.Sprintf("m%d", i)
		keys := []string{"k"}
		kind := []metrics.Kind{metrics.Counter, metrics.Gauge, metrics.Histogram}[i%3]
		typ := metrics.Int
		if bad != nil && bad.Metric == i {
			switch bad.Kind {
			case "invalid-metric-name":
				name = "bad name!"
			case "key-named-prog":
				keys = []string{"prog"}
			case "invalid-key-name":
				keys = []string{"bad key"}
			}
		}
		if kind == metrics.Histogram {
			typ = metrics.Buckets
		}
		m := metrics.NewMetric(name, "prog", kind, typ, keys...)
		if kind == metrics.Histogram {
			m.Buckets = []datum.Range{{Min: 0, Max: 1}, {Min: 1, Max: math_Inf}}
		}
		for j := 0; j < L; j++ {
			lab := fmt.Sprintf("l%d", j)
			if bad != nil && bad.Metric == i && bad.LabelSet == j && bad.Kind == "non-utf8-label-value" {
				lab = "\xff\xfe"
			}
			d, _ := m.GetDatum(lab)
			switch kind {
			case metrics.Histogram:
				datum.Observe(d, 0.5, time.Unix(100, 0))
			default:
				datum.SetInt(d, int64(j+1), time.Unix(100, 0))
			}
		}
		_ = st.Add(m)
		ms = append(ms, m)
	}
	return st, ms
}

var math_Inf = func() float64 { var z float64; return 1 / z }()

// failWriter fails at the k-th write (1-based); counts writes.
type failWriter struct {
	k, n int
	buf  bytes.Buffer
}

func (f *failWriter) Write(p []byte) (int, error) {
	f.n++
	if f.k > 0 && f.n >= f.k {
		return 0, errors.New("injected write failure")
	}
	return f.buf.Write(p)
}

// cancelWriter is a ResponseWriter that cancels the request context at the k-th write.
type cancelWriter struct {
	*httptest.ResponseRecorder
	k, n   int
	cancel context.CancelFunc
	fail   bool
}

func (c *cancelWriter) Write(p []byte) (int, error) {
	c.n++
	if c.k > 0 && c.n == c.k {
		c.cancel()
	}
	if c.fail && c.k > 0 && c.n >= c.k {
		return 0, errors.New("injected response write failure")
	}
	return c.ResponseRecorder.Write(p)
}

// pollCtx is a context that turns out cancelled at the after-th look at it.
type pollCtx struct {
	context.Context
	polls  atomic.Int32
	after  int32
	cancel context.CancelFunc
}

func (c *pollCtx) look() {
	if c.polls.Add(1) >= c.after {
		c.cancel()
	}
}

func (c *pollCtx) Done() <-chan struct{} { c.look(); return c.Context.Done() }
func (c *pollCtx) Err() error            { c.look(); return c.Context.Err() }

func parkedEmitters() (int, string) {
	buf := make([]byte, 4<<20)
	buf = buf[:runtime.Stack(buf, true)]
	n := 0
	var first string
	for _, g := range strings.Split(string(buf), "\n\n") {
		if strings.Contains(g, "metrics.(*Metric).EmitLabelSets") {
			n++
			if first == "" {
				first = g
			}
		}
	}
	return n, first
}

// judge is the post-attempt oracle.
func judge(r *ev.Run, f fault, st *metrics.Store, ms []*metrics.Metric) bool {
	// (1) every metric must be lockable: definitive, time-free
	for i, m := range ms {
		if !m.TryLock() {
			r.Violation("metric-left-locked", map[string]any{"fault": f, "what": fmt.Sprintf("metric %d (%s) is still read-locked after the export attempt returned", i, m.Name)})
			return false
		}
		m.Unlock()
	}
	// (2) no helper goroutine left blocked in EmitLabelSets
	var n int
	var stack string
	for try := 0; try < 200; try++ {
		n, stack = parkedEmitters()
		if n == 0 {
			break
		}
		time.Sleep(5 * time.Millisecond)
	}
	if n > 0 {
		r.Violation("emitter-goroutine-leaked", map[string]any{"fault": f, "what": fmt.Sprintf("%d goroutine(s) remain parked in EmitLabelSets with no receiver", n), "stack": stack})
		return false
	}
	// (3) progress: a VM-style update that needs the write lock, and another export
	done := make(chan struct{})
	go func() {
		for _, m := range ms {
			d, err := m.GetDatum("fresh-label")
			if err == nil && m.Kind != metrics.Histogram {
				datum.IncIntBy(d, 1, time.Unix(200, 0))
			}
		}
		e, _ := exporter.New(context.Background(), st, exporter.Hostname("h"), exporter.DisableExport())
		rec := httptest.NewRecorder()
		e.HandleVarz(rec, httptest.NewRequest("GET", "/varz", nil))
		e.Stop()
		close(done)
	}()
	select {
	case <-done:
	case <-time.After(90 * time.Second):
		r.Violation("subsequent-processing-stalled", map[string]any{"fault": f, "what": "creating a new label set / a subsequent export did not complete within 90s"})
		return false
	}
	return true
}

func TestC12(t *testing.T) {
	r := ev.Start(t, "C12", "fault_enumeration")
	defer r.Finish()
	r.Rule("fault grid: stores of M<=3 metrics x L<=3 label sets (thorough: also 4x4); for Prometheus (Write and /metrics handler) an unrepresentable item of each kind {invalid metric name, key named prog, invalid key name, non-UTF-8 label value} at every (metric, label set); for graphite/statsd/collectd a writer failing at the k-th write for every k up to the number of writes, plus real tcp/unix/udp peers that close early; for /varz /graphite /json a request context cancelled before the first metric, at every k-th response write (with and without a failing ResponseWriter) and at every k-th look the handler takes at the context. After each attempt: TryLock on every metric, no goroutine parked in EmitLabelSets, a write-locking update and another export complete. Non-trivial: every fault point (all inject a failure); distinct by fault tuple.")
	r.Assume("a goroutine still parked in EmitLabelSets after 1s of polling has no receiver left (its channel is local to the returned export call)")
	maxML := ev.Pick(3, 4)
	mkExp := func(st *metrics.Store) *exporter.Exporter {
		e, err := exporter.New(context.Background(), st, exporter.Hostname("h"), exporter.DisableExport(), exporter.EmitTimestamp())
		if err != nil {
			t.Fatal(err)
		}
		return e
	}
	run := func(f fault, st *metrics.Store, ms []*metrics.Metric, attempt func()) bool {
		done := make(chan struct{})
		go func() { attempt(); close(done) }()
		select {
		case <-done:
		case <-time.After(120 * time.Second):
			r.Violation("export-attempt-hung", map[string]any{"fault": f, "what": "the export attempt itself did not return within 120s"})
			return false
		}
		r.Eval(1)
		r.Distinct(fmt.Sprintf("%+v", f))
		r.Count("faults_"+f.Exporter, 1)
		return judge(r, f, st, ms)
	}
	for M := 1; M <= maxML; M++ {
		for L := 1; L <= maxML; L++ {
			// Prometheus: unrepresentable items
			for _, kind := range []string{"invalid-metric-name", "key-named-prog", "invalid-key-name", "non-utf8-label-value"} {
				for i := 0; i < M; i++ {
					for j := 0; j < L; j++ {
						if kind != "non-utf8-label-value" && j > 0 {
							continue
						}
						for _, path := range []string{"prometheus-write", "prometheus-handler"} {
							f := fault{Exporter: path, Kind: kind, Metric: i, LabelSet: j, M: M, L: L}
							st, ms := buildStore(M, L, &f)
							ok := run(f, st, ms, func() {
								if path == "prometheus-write" {
									e := mkExp(st)
									var buf bytes.Buffer
									_ = e.Write(&buf)
									e.Stop()
									return
								}
								empty := metrics.NewStore()
								e := mkExp(empty)
								reg := prometheus.NewRegistry()
								_ = reg.Register(e)
								for _, m := range ms {
									_ = empty.Add(m)
								}
								rec := httptest.NewRecorder()
								promhttp.HandlerFor(reg, promhttp.HandlerOpts{}).ServeHTTP(rec, httptest.NewRequest("GET", "/metrics", nil))
								e.Stop()
							})
							if !ok && r.Violations() > 6 {
								return
							}
						}
					}
				}
			}
			// push formats: failing writer at every k
			for _, format := range []string{"graphite", "statsd", "collectd"} {
				// count writes of a clean run
				st, _ := buildStore(M, L, nil)
				e := mkExp(st)
				fw := &failWriter{}
				_ = e.WriteSocketMetricsForVerif(fw, format)
				e.Stop()
				total := fw.n
				for k := 1; k <= total; k++ {
					f := fault{Exporter: "push-" + format, Kind: "write-fails-at-k", K: k, M: M, L: L}
					st, ms := buildStore(M, L, nil)
					ok := run(f, st, ms, func() {
						e := mkExp(st)
						_ = e.WriteSocketMetricsForVerif(&failWriter{k: k}, format)
						e.Stop()
					})
					if !ok && r.Violations() > 6 {
						return
					}
				}
			}
			// HTTP handlers: cancellation at each write, failing writer
			for _, h := range []string{"varz", "graphite", "json"} {
				st, _ := buildStore(M, L, nil)
				e := mkExp(st)
				cw := &cancelWriter{ResponseRecorder: httptest.NewRecorder(), cancel: func() {}}
				serve(e, h, cw, httptest.NewRequest("GET", "/"+h, nil))
				e.Stop()
				total := cw.n
				for k := 0; k <= total; k++ {
					for _, failing := range []bool{false, true} {
						f := fault{Exporter: "http-" + h, Kind: "cancel-at-write-k", K: k, M: M, L: L}
						if failing {
							f.Kind = "cancel-and-fail-at-write-k"
						}
						st, ms := buildStore(M, L, nil)
						ok := run(f, st, ms, func() {
							e := mkExp(st)
							ctx, cancel := context.WithCancel(context.Background())
							if k == 0 {
								cancel() // cancelled before the first metric
							}
							w := &cancelWriter{ResponseRecorder: httptest.NewRecorder(), k: k, cancel: cancel, fail: failing}
							serve(e, h, w, httptest.NewRequest("GET", "/"+h, nil).WithContext(ctx))
							cancel()
							e.Stop()
						})
						if !ok && r.Violations() > 6 {
							return
						}
					}
				}
				// the client is gone by the k-th time the handler looks at the
				// request context (independent of when the handler writes)
				st2, _ := buildStore(M, L, nil)
				e2 := mkExp(st2)
				pc := &pollCtx{Context: context.Background(), after: 1 << 30, cancel: func() {}}
				serve(e2, h, httptest.NewRecorder(), httptest.NewRequest("GET", "/"+h, nil).WithContext(pc))
				e2.Stop()
				for k := 1; k <= int(pc.polls.Load())+1; k++ {
					f := fault{Exporter: "http-" + h, Kind: "cancel-at-context-poll-k", K: k, M: M, L: L}
					st, ms := buildStore(M, L, nil)
					ok := run(f, st, ms, func() {
						e := mkExp(st)
						ctx, cancel := context.WithCancel(context.Background())
						serve(e, h, httptest.NewRecorder(), httptest.NewRequest("GET", "/"+h, nil).WithContext(&pollCtx{Context: ctx, after: int32(k), cancel: cancel}))
						cancel()
						e.Stop()
					})
					if !ok && r.Violations() > 6 {
						return
					}
				}
			}
		}
	}
	r.Exhaustive(true)
	r.Sample(fault{Exporter: "push-graphite", Kind: "write-fails-at-k", K: 2, M: 2, L: 3})
	r.Sample(fault{Exporter: "prometheus-handler", Kind: "non-utf8-label-value", Metric: 1, LabelSet: 2, M: 3, L: 3})

	// real sockets: peers that close early
	realSockets(t, r, run)

	if r.Violations() == 0 {
		concurrentAttempts(t, r, nil)
	}
	if r.Violations() == 0 {
		stalledClient(t, r)
	}
	// the same with an unrepresentable item in the store, so that the
	// exporters' rejection paths run while writers queue for the locks
	for _, kind := range []string{"non-utf8-label-value", "invalid-key-name", "key-named-prog", "invalid-metric-name"} {
		if r.Violations() == 0 {
			concurrentAttempts(t, r, &fault{Exporter: "all", Kind: kind, Metric: 1, LabelSet: 1, M: 3, L: 3})
		}
	}
}

// stalledClient: a real server (options as the binary sets them: debug and
// info endpoints on) and a client that requests /varz, reads the beginning of
// a response larger than the socket buffers and then neither reads on nor
// disconnects. The attempt must not pin the metric: a write-locking update of
// it completes (the server gives up on the client). Judged by the stall
// oracle, not by a clock.
func stalledClient(t *testing.T, r *ev.Run) {
	dir, _ := os.MkdirTemp(ev.Scratch(), "c12srv")
	defer os.RemoveAll(dir)
	_ = os.MkdirAll(filepath.Join(dir, "progs"), 0o755)
	st := metrics.NewStore()
	m := metrics.NewMetric("big", "p", metrics.Counter, metrics.Int, "k")
	for i := 0; i < 30000; i++ {
		d, _ := m.GetDatum(fmt.Sprintf("label-value-number-%06d-%s", i, strings.Repeat("x", 40)))
		datum.SetInt(d, int64(i), time.Unix(1000, 0))
	}
	if err := st.Add(m); err != nil {
		t.Fatal(err)
	}
	sock := filepath.Join(dir, "http.sock")
	ctx, cancel := context.WithCancel(context.Background())
	defer cancel()
	srv, err := mtail.New(ctx, st, mtail.ProgramPath(filepath.Join(dir, "progs")), mtail.BindUnixSocket(sock), mtail.HTTPDebugEndpoints, mtail.HTTPInfoEndpoints)
	if err != nil {
		r.Inconclusive("stalled-client phase: server start: " + err.Error())
		return
	}
	runDone := make(chan struct{})
	go func() { _ = srv.Run(); close(runDone) }()
	var c net.Conn
	for try := 0; try < 500 && c == nil; try++ {
		if cc, err := net.Dial("unix", sock); err == nil {
			c = cc
		} else {
			time.Sleep(2 * time.Millisecond)
		}
	}
	if c == nil {
		r.Inconclusive("stalled-client phase: cannot connect to the server's socket")
		return
	}
	defer c.Close()
	_, _ = c.Write([]byte("GET /varz HTTP/1.1\r\nHost: x\r\n\r\n"))
	buf := make([]byte, 2048)
	if n, err := io.ReadFull(c, buf); err != nil || !strings.Contains(string(buf[:n]), "big{") {
		r.Inconclusive(fmt.Sprintf("stalled-client phase: the response did not start as expected (%v)", err))
		return
	}
	// the client goes quiet here; the handler is in the middle of the metric
	r.Guard("a write-locking update of a metric whose /varz export is stuck on a client that stopped reading", func() {
		d, err := m.GetDatum("a-new-label")
		if err == nil {
			datum.IncIntBy(d, 1, time.Unix(2000, 0))
		}
	})
	r.Eval(1)
	r.Count("stalled_client_updates_completed", 1)
	f := fault{Exporter: "http-varz-real-server", Kind: "client-stops-reading", M: 1, L: 30000}
	r.Distinct(fmt.Sprintf("%+v", f))
	c.Close()
	cancel()
	<-runDone
}

// concurrentAttempts: the same attempts (clean, cancelled, failing) while
// writers take the metrics' write locks the way running programs and the GC
// do. Every attempt and every write must complete; a stall is judged on the
// goroutine dump (who waits on which lock), see ev.Guard.
func concurrentAttempts(t *testing.T, r *ev.Run, bad *fault) {
	st, ms := buildStore(3, 3, bad)
	e, err := exporter.New(context.Background(), st, exporter.Hostname("h"), exporter.DisableExport(), exporter.EmitTimestamp())
	if err != nil {
		t.Fatal(err)
	}
	defer e.Stop()
	nExp, nWr := ev.Pick(400, 4000), ev.Pick(20000, 200000)
	var attempts, writes atomic.Int64
	what := "export attempts concurrent with write-locking updates"
	if bad != nil {
		what += " (store holds an unrepresentable item: " + bad.Kind + ")"
	}
	r.Guard(what, func() {
		var wg sync.WaitGroup
		for w := 0; w < 3; w++ {
			w := w
			wg.Add(1)
			go func() {
				defer wg.Done()
				for i := 0; i < nWr; i++ {
					m := ms[(i+w)%len(ms)]
					lab := make([]string, len(m.Keys))
					for k := range lab {
						lab[k] = fmt.Sprintf("w%d_%d", w, i%7)
					}
					switch i % 4 {
					case 0, 1:
						if d, err := m.GetDatum(lab...); err == nil && m.Type == metrics.Int {
							datum.IncIntBy(d, 1, time.Unix(int64(i), 0))
						}
					case 2:
						_ = m.RemoveDatum(lab...)
					case 3:
						if i%64 == 3 {
							_ = st.Gc()
						} else {
							_ = m.ExpireDatum(time.Hour, lab...)
						}
					}
					writes.Add(1)
				}
			}()
		}
		for x := 0; x < 6; x++ {
			x := x
			wg.Add(1)
			go func() {
				defer wg.Done()
				for i := 0; i < nExp; i++ {
					switch (i + x) % 6 {
					case 0:
						var buf bytes.Buffer
						_ = e.Write(&buf)
					case 1, 2, 3:
						h := []string{"varz", "graphite", "json"}[(i+x)%6-1]
						ctx, cancel := context.WithCancel(context.Background())
						w := &cancelWriter{ResponseRecorder: httptest.NewRecorder(), k: 1 + i%5, cancel: cancel, fail: i%2 == 0}
						if i%3 == 0 {
							w.k = 1 << 30 // clean attempt
						}
						serve(e, h, w, httptest.NewRequest("GET", "/"+h, nil).WithContext(ctx))
						cancel()
					case 4:
						_ = e.WriteSocketMetricsForVerif(&failWriter{k: 1 + i%4}, "statsd")
					case 5:
						_ = e.WriteSocketMetricsForVerif(&failWriter{}, "collectd")
					}
					attempts.Add(1)
				}
			}()
		}
		wg.Wait()
	})
	r.Eval(1)
	r.Count("concurrent_export_attempts_completed", int(attempts.Load()))
	r.Count("concurrent_write_locking_updates_completed", int(writes.Load()))
	f := fault{Exporter: "all", Kind: "concurrent-with-writers", M: 3, L: 3}
	if bad != nil {
		f.Kind = "concurrent-with-writers+" + bad.Kind
	}
	r.Distinct(fmt.Sprintf("%+v", f))
	judge(r, f, st, ms)
}

func serve(e *exporter.Exporter, h string, w http.ResponseWriter, req *http.Request) {
	switch h {
	case "varz":
		e.HandleVarz(w, req)
	case "graphite":
		e.HandleGraphite(w, req)
	case "json":
		e.HandleJSON(w, req)
	}
}

func realSockets(t *testing.T, r *ev.Run, run func(fault, *metrics.Store, []*metrics.Metric, func()) bool) {
	dir, _ := os.MkdirTemp(ev.Scratch(), "c12")
	defer os.RemoveAll(dir)
	_ = flag.Set("metric_push_write_deadline", "2s")
	for _, closeAfter := range []int{0, 1, 40} {
		// graphite: tcp peer that reads closeAfter bytes then resets
		ln, err := net.Listen("tcp", "127.0.0.1:0")
		if err != nil {
			r.Inconclusive("cannot listen on tcp: " + err.Error())
			return
		}
		go acceptAndClose(ln, closeAfter)
		// collectd: unix peer
		sock := filepath.Join(dir, fmt.Sprintf("collectd-%d.sock", closeAfter))
		uln, err := net.Listen("unix", sock)
		if err != nil {
			r.Inconclusive("cannot listen on unix socket: " + err.Error())
			return
		}
		go acceptAndClose(uln, closeAfter)
		// statsd: udp port with nobody listening (ECONNREFUSED on a later write)
		uc, _ := net.ListenPacket("udp", "127.0.0.1:0")
		udpAddr := uc.LocalAddr().String()
		uc.Close()
		_ = flag.Set("graphite_host_port", ln.Addr().String())
		_ = flag.Set("collectd_socketpath", sock)
		_ = flag.Set("statsd_hostport", udpAddr)
		f := fault{Exporter: "push-real-sockets", Kind: "peer-closes-after-bytes", K: closeAfter, M: 3, L: 40}
		st, ms := buildStore(3, 40, nil)
		run(f, st, ms, func() {
			e, err := exporter.New(context.Background(), st, exporter.Hostname("h"), exporter.PushInterval(time.Hour))
			if err != nil {
				t.Error(err)
				return
			}
			for i := 0; i < 3; i++ {
				e.PushMetrics()
			}
			e.Stop()
		})
		ln.Close()
		uln.Close()
	}
	_ = flag.Set("graphite_host_port", "")
	_ = flag.Set("collectd_socketpath", "")
	_ = flag.Set("statsd_hostport", "")
}

func acceptAndClose(ln net.Listener, after int) {
	for {
		c, err := ln.Accept()
		if err != nil {
			return
		}
		go func(c net.Conn) {
			if after > 0 {
				buf := make([]byte, after)
				_, _ = c.Read(buf)
			}
			if tc, ok := c.(*net.TCPConn); ok {
				_ = tc.SetLinger(0) // RST
			}
			c.Close()
		}(c)
	}
}
