// Package gen is the harness's own typed mtail program generator. Programs are
// built as this package's AST (never through mtail's parser) and rendered to
// source text; package refsem interprets the same AST.
package gen

import (
	"fmt"
	"math"
	"strconv"
	"strings"
	"time"
)

type Type int

const (
	TInt Type = iota
	TFloat
	TString
	TBool
)

func (t Type) String() string { return [...]string{"Int", "Float", "String", "Bool"}[t] }

type Metric struct {
	Name     string
	Kind     string // counter gauge timer text histogram
	Type     Type   // value type (for histogram: type of the observed expression)
	Keys     []string
	KeyTypes []Type
	Hidden   bool
	As       string
	Limit    int
	Buckets  []float64
	Index    int // position among the rendered declarations
}

// Group is one capture group of a pattern.
type Group struct {
	Name string // "" for unnamed
	T    Type
}

// Pattern is a regular expression with typed groups, assembled from parts
// (literal regex text or const fragment names).
type Pattern struct {
	Parts  []PatPart
	Regex  string // full text after concatenation
	Groups []Group
	ID     int
}

type PatPart struct {
	Lit   string // regex literal text (without slashes), or
	Const string // name of a const fragment
}

type Expr interface{ exprNode() }

type IntLit struct{ V int64 }
type FloatLit struct{ V float64 }
type StrLit struct{ S string }

// Capref refers to group Idx (1-based) of pattern Pat.
type Capref struct {
	Pat   *Pattern
	Idx   int
	Named bool
	T     Type
}
type MetricRead struct {
	M    *Metric
	Keys []Expr
}

// IncExpr is m[k]++ / m[k]-- used for its value (the new value) inside a
// larger expression.
type IncExpr struct {
	M    *Metric
	Keys []Expr
	Op   string
}

// Bin covers arithmetic (+ - * / % **), bitwise (& | ^), shifts (<< >>),
// comparisons (< <= > >= == !=), string concatenation (+), logical (&& ||).
type Bin struct {
	Op   string
	L, R Expr
	T    Type // result type
}
type BitNot struct{ E Expr }
type Call struct {
	Name string
	Args []Expr
	T    Type
}

// SubstRe is subst(/re/, new, val).
type SubstRe struct {
	Re       string
	New, Val Expr
}

// PatCond is a pattern used as (the first operand of) a condition.
type PatCond struct{ Pat *Pattern }

// Match is e =~ /re/ or e !~ /re/.
type Match struct {
	E   Expr
	Pat *Pattern
	Neg bool
}

func (*IntLit) exprNode()     {}
func (*FloatLit) exprNode()   {}
func (*StrLit) exprNode()     {}
func (*Capref) exprNode()     {}
func (*MetricRead) exprNode() {}
func (*IncExpr) exprNode()    {}
func (*Bin) exprNode()        {}
func (*BitNot) exprNode()     {}
func (*Call) exprNode()       {}
func (*SubstRe) exprNode()    {}
func (*PatCond) exprNode()    {}
func (*Match) exprNode()      {}

type Stmt interface{ stmtNode() }

type Cond struct {
	C       Expr
	Then    []Stmt
	Else    []Stmt
	HasElse bool
}
type Otherwise struct{ Body []Stmt }
type Assign struct {
	M    *Metric
	Keys []Expr
	Op   string // "=" or "+="
	E    Expr
}
type IncDec struct {
	M    *Metric
	Keys []Expr
	Op   string // "++" "--"
}
type Del struct {
	M     *Metric
	Keys  []Expr
	After time.Duration
}
type Stop struct{}
type Next struct{}
type Deco struct {
	Def  *DecoDef
	Body []Stmt
}
type ExprStmt struct{ E Expr } // settime(...) / strptime(...)

func (*Cond) stmtNode()      {}
func (*Otherwise) stmtNode() {}
func (*Assign) stmtNode()    {}
func (*IncDec) stmtNode()    {}
func (*Del) stmtNode()       {}
func (*Stop) stmtNode()      {}
func (*Next) stmtNode()      {}
func (*Deco) stmtNode()      {}
func (*ExprStmt) stmtNode()  {}

type DecoDef struct {
	Name string
	Body []Stmt
}
type ConstDef struct {
	Name  string
	Regex string
}

type Program struct {
	Metrics []*Metric
	Consts  []*ConstDef
	Decos   []*DecoDef
	Stmts   []Stmt
	// features used, for the evidence histogram
	Features map[string]int
}

// ---------------------------------------------------------------------
// Rendering

// precedence: higher binds tighter.
func prec(op string) int {
	switch op {
	case "&&", "||":
		return 1
	case "&", "|", "^":
		return 2
	case "<", "<=", ">", ">=", "==", "!=":
		return 3
	case "<<", ">>":
		return 4
	case "+", "-":
		return 5
	case "*", "/", "%", "**":
		return 6
	}
	return 9
}

type Renderer struct {
	Full       bool // fully parenthesised expressions
	IndexStyle int  // 0: m[a, b]   1: m[a][b]
}

func FloatText(f float64) string {
	s := strconv.FormatFloat(f, 'g', -1, 64)
	if !strings.ContainsAny(s, ".e") {
		s += ".0"
	}
	return s
}

func (r *Renderer) pattern(p *Pattern) string {
	var parts []string
	for _, pp := range p.Parts {
		if pp.Const != "" {
			parts = append(parts, pp.Const)
		} else {
			parts = append(parts, "/"+pp.Lit+"/")
		}
	}
	return strings.Join(parts, " + ")
}

func (r *Renderer) keys(m *Metric, keys []Expr) string {
	if len(keys) == 0 {
		return m.Name
	}
	var ks []string
	for _, k := range keys {
		ks = append(ks, r.Expr(k))
	}
	if r.IndexStyle == 1 {
		return m.Name + "[" + strings.Join(ks, "][") + "]"
	}
	return m.Name + "[" + strings.Join(ks, ", ") + "]"
}

// Expr renders e in a context that accepts any logical_expr.
func (r *Renderer) Expr(e Expr) string { return r.expr(e, 0) }

// expr renders e as an operand of an operator of precedence ctx (0 = none).
// right reports whether it is the right operand (left-assoc: equal precedence
// on the right needs parentheses).
func (r *Renderer) expr(e Expr, ctx int) string { return r.exprSide(e, ctx, false) }

func (r *Renderer) exprSide(e Expr, ctx int, right bool) string {
	switch n := e.(type) {
	case *Raw:
		return n.Text
	case *IntLit:
		return strconv.FormatInt(n.V, 10)
	case *FloatLit:
		return FloatText(n.V)
	case *StrLit:
		return "\"" + n.S + "\""
	case *Capref:
		if n.Idx == 0 {
			return "$0" // the text matched by the innermost pattern
		}
		g := n.Pat.Groups[n.Idx-1]
		if n.Named && g.Name != "" {
			return "$" + g.Name
		}
		return "$" + strconv.Itoa(n.Idx)
	case *MetricRead:
		return r.keys(n.M, n.Keys)
	case *IncExpr:
		return r.keys(n.M, n.Keys) + n.Op
	case *BitNot:
		return "~" + r.exprSide(n.E, 8, false)
	case *Call:
		var as []string
		for _, a := range n.Args {
			as = append(as, r.Expr(a))
		}
		return n.Name + "(" + strings.Join(as, ", ") + ")"
	case *SubstRe:
		return "subst(/" + n.Re + "/, " + r.Expr(n.New) + ", " + r.Expr(n.Val) + ")"
	case *PatCond:
		return r.pattern(n.Pat)
	case *Match:
		op := " =~ "
		if n.Neg {
			op = " !~ "
		}
		// match_expr: primary_expr match_op pattern_expr; it is an operand of
		// logical operators only.
		s := r.exprSide(n.E, 9, false) + op + r.pattern(n.Pat)
		if r.Full || ctx > 1 {
			return "(" + s + ")"
		}
		return s
	case *Bin:
		p := prec(n.Op)
		var s string
		if _, isPat := n.L.(*PatCond); isPat {
			// pattern_expr logical_op logical_expr: never parenthesised
			return r.pattern(n.L.(*PatCond).Pat) + " " + n.Op + " " + r.exprSide(n.R, p, true)
		}
		s = r.exprSide(n.L, p, false) + " " + n.Op + " " + r.exprSide(n.R, p, true)
		if r.Full && ctx > 0 {
			return "(" + s + ")"
		}
		if ctx > p || (ctx == p && right) {
			return "(" + s + ")"
		}
		return s
	}
	panic(fmt.Sprintf("render: unknown expr %T", e))
}

func (r *Renderer) stmts(b *strings.Builder, ss []Stmt, ind string) {
	for _, s := range ss {
		r.stmt(b, s, ind)
	}
}

func (r *Renderer) stmt(b *strings.Builder, s Stmt, ind string) {
	switch n := s.(type) {
	case *Cond:
		b.WriteString(ind + r.Expr(n.C) + " {\n")
		r.stmts(b, n.Then, ind+"  ")
		if n.HasElse {
			b.WriteString(ind + "} else {\n")
			r.stmts(b, n.Else, ind+"  ")
		}
		b.WriteString(ind + "}\n")
	case *Otherwise:
		b.WriteString(ind + "otherwise {\n")
		r.stmts(b, n.Body, ind+"  ")
		b.WriteString(ind + "}\n")
	case *Assign:
		b.WriteString(ind + r.keys(n.M, n.Keys) + " " + n.Op + " " + r.Expr(n.E) + "\n")
	case *IncDec:
		b.WriteString(ind + r.keys(n.M, n.Keys) + n.Op + "\n")
	case *Del:
		b.WriteString(ind + "del " + r.keys(n.M, n.Keys))
		if n.After > 0 {
			b.WriteString(" after " + DurText(n.After))
		}
		b.WriteString("\n")
	case *Stop:
		b.WriteString(ind + "stop\n")
	case *Next:
		b.WriteString(ind + "next\n")
	case *Deco:
		b.WriteString(ind + "@" + n.Def.Name + " {\n")
		r.stmts(b, n.Body, ind+"  ")
		b.WriteString(ind + "}\n")
	case *ExprStmt:
		b.WriteString(ind + r.Expr(n.E) + "\n")
	case *RawStmt:
		b.WriteString(ind + n.Text + "\n")
	default:
		panic(fmt.Sprintf("render: unknown stmt %T", s))
	}
}

func DurText(d time.Duration) string {
	switch {
	case d%time.Second != 0:
		return d.String()
	case d%time.Hour == 0:
		return fmt.Sprintf("%dh", d/time.Hour)
	case d%time.Minute == 0:
		return fmt.Sprintf("%dm", d/time.Minute)
	}
	return fmt.Sprintf("%ds", d/time.Second)
}

func (r *Renderer) Decl(m *Metric) string {
	var b strings.Builder
	if m.Hidden {
		b.WriteString("hidden ")
	}
	b.WriteString(m.Kind + " " + m.Name)
	if len(m.Keys) > 0 {
		b.WriteString(" by " + strings.Join(m.Keys, ", "))
	}
	if m.As != "" {
		b.WriteString(" as \"" + m.As + "\"")
	}
	if m.Limit > 0 {
		b.WriteString(fmt.Sprintf(" limit %d", m.Limit))
	}
	if len(m.Buckets) > 0 {
		var bs []string
		for _, v := range m.Buckets {
			if v == math.Trunc(v) && math.Abs(v) < 1e15 {
				bs = append(bs, strconv.FormatFloat(v, 'f', -1, 64))
			} else {
				bs = append(bs, strconv.FormatFloat(v, 'g', -1, 64))
			}
		}
		b.WriteString(" buckets " + strings.Join(bs, ", "))
	}
	return b.String()
}

// Render produces the program text.
func (r *Renderer) Render(p *Program) string {
	var b strings.Builder
	for _, m := range p.Metrics {
		b.WriteString(r.Decl(m) + "\n")
	}
	for _, c := range p.Consts {
		b.WriteString("const " + c.Name + " /" + c.Regex + "/\n")
	}
	for _, d := range p.Decos {
		b.WriteString("def " + d.Name + " {\n")
		r.stmts(&b, d.Body, "  ")
		b.WriteString("}\n")
	}
	r.stmts(&b, p.Stmts, "")
	return b.String()
}

// Raw is an expression rendered verbatim (used by the defect-introducing
// mutators of C24; never interpreted).
type Raw struct {
	Text string
	T    Type
}

// RawStmt is a statement rendered verbatim.
type RawStmt struct{ Text string }

func (*Raw) exprNode()     {}
func (*RawStmt) stmtNode() {}
