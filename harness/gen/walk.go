package gen

// BlockRef points at one statement list of a program.
type BlockRef struct {
	Stmts   *[]Stmt
	Kind    string // top then else otherwise deco def
	Visible map[*Pattern]bool
	InDef   bool
}

// Blocks enumerates every statement list of p (top level, then/else
// branches, otherwise bodies, decorated blocks, decorator bodies) together
// with the patterns whose capture groups are declared in scope there.
func Blocks(p *Program) []BlockRef {
	var out []BlockRef
	var walk func(ss *[]Stmt, kind string, vis map[*Pattern]bool, inDef bool)
	with := func(vis map[*Pattern]bool, pt *Pattern) map[*Pattern]bool {
		n := map[*Pattern]bool{}
		for k := range vis {
			n[k] = true
		}
		if pt != nil {
			n[pt] = true
		}
		return n
	}
	// defPats: the patterns visible at a definition's `next` (its condition,
	// and a second condition when next sits directly under one)
	defPats := func(d *DecoDef) []*Pattern {
		var out []*Pattern
		if len(d.Body) > 0 {
			for c, ok := d.Body[0].(*Cond); ok; {
				out = append(out, patternOf(c.C))
				if len(c.Then) == 1 {
					c, ok = c.Then[0].(*Cond)
				} else {
					ok = false
				}
			}
		}
		return out
	}
	walk = func(ss *[]Stmt, kind string, vis map[*Pattern]bool, inDef bool) {
		out = append(out, BlockRef{ss, kind, vis, inDef})
		for _, s := range *ss {
			switch n := s.(type) {
			case *Cond:
				v := with(vis, patternOf(n.C))
				walk(&n.Then, "then", v, inDef)
				if n.HasElse {
					walk(&n.Else, "else", v, inDef)
				}
			case *Otherwise:
				walk(&n.Body, "otherwise", vis, inDef)
			case *Deco:
				v := vis
				for _, pt := range defPats(n.Def) {
					v = with(v, pt)
				}
				walk(&n.Body, "deco", v, inDef)
			}
		}
	}
	walk(&p.Stmts, "top", map[*Pattern]bool{}, false)
	for _, d := range p.Decos {
		walk(&d.Body, "def", map[*Pattern]bool{}, true)
	}
	return out
}

// Patterns lists the patterns used in conditions of p.
func Patterns(p *Program) []*Pattern {
	seen := map[*Pattern]bool{}
	var out []*Pattern
	for _, b := range Blocks(p) {
		for _, s := range *b.Stmts {
			if c, ok := s.(*Cond); ok {
				if pt := patternOf(c.C); pt != nil && !seen[pt] {
					seen[pt] = true
					out = append(out, pt)
				}
			}
		}
	}
	return out
}

// MetricUses lists pointers to the key lists of every use of a dimensioned
// metric in statements (assignments, ++/--, del).
func MetricUses(p *Program) []*[]Expr {
	var out []*[]Expr
	for _, b := range Blocks(p) {
		for _, s := range *b.Stmts {
			switch n := s.(type) {
			case *Assign:
				if len(n.M.Keys) > 0 {
					out = append(out, &n.Keys)
				}
			case *IncDec:
				if len(n.M.Keys) > 0 {
					out = append(out, &n.Keys)
				}
			case *Del:
				out = append(out, &n.Keys)
			}
		}
	}
	return out
}

// WalkExpr calls fn on e and every sub-expression of e (keys included).
func WalkExpr(e Expr, fn func(Expr)) {
	if e == nil {
		return
	}
	fn(e)
	switch n := e.(type) {
	case *MetricRead:
		for _, k := range n.Keys {
			WalkExpr(k, fn)
		}
	case *IncExpr:
		for _, k := range n.Keys {
			WalkExpr(k, fn)
		}
	case *Bin:
		WalkExpr(n.L, fn)
		WalkExpr(n.R, fn)
	case *BitNot:
		WalkExpr(n.E, fn)
	case *Call:
		for _, a := range n.Args {
			WalkExpr(a, fn)
		}
	case *SubstRe:
		WalkExpr(n.New, fn)
		WalkExpr(n.Val, fn)
	case *Match:
		WalkExpr(n.E, fn)
	}
}
