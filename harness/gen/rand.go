package gen

import (
	"fmt"
	"math"
	"strings"
	"time"

	"github.com/google/mtail/verif/ev"
)

// Restrictions lists what the generator deliberately does not emit because
// the language reference does not pin the behaviour down (copied into
// evidence assumptions).
var Restrictions = []string{
	"at most one pattern (literal, const fragment or =~) per condition expression",
	"no comparison or arithmetic mixing String with numbers without explicit int()/float()",
	"every assignment / += uses an expression of exactly the metric's value type; int(Float) is never generated",
	"Int ** only with small bases (|b|<=3) and literal exponents 0..4",
	"shift counts are literals 0..62 or (expr % 63) (negative => runtime error)",
	"string(Float) only for literals whose %g/%v/'G' renderings agree",
	"no string literal containing \" or \\, no regex literal containing / (C23 covers those)",
	"no literal-zero divisor (compile-time rejection; C02/C24 cover it); constant divisors are non-zero literals",
	"~ only as an operand of & | ^ << >>",
	"tolower arguments are ASCII",
	"timestamp() only after settime()/strptime() on the same line",
	"otherwise is not generated directly in a decorated block or next to `next` (flag scoping of decorated blocks is not specified); a case is abandoned when an `otherwise` is reached after an else branch in which a conditional matched (not specified whether that counts as a preceding match); otherwise directly inside an else block is generated only when Opts.ElseOtherwise is set (finding C01-a)",
	"capture groups of a condition's pattern are not referenced from that condition's else branch, nor after a || in the same condition",
	"metric keys have a fixed type (String or Int) per key position",
	"histograms are declared with a positive first boundary (C21 covers the others)",
	"a case is abandoned (counted as skipped) as soon as the reference has to compare a NaN: ordering of NaN is not specified",
	"a decorator is not used inside its own decorated block unless Opts.SelfNestedDeco (finding C01-f)",
}

type Opts struct {
	ElseOtherwise bool // allow `otherwise` directly inside else blocks (C01-a shape)
	Strptime      bool // allow strptime()/timestamp() (C05/C07 style programs)
	ErrHeavy      bool // more failing conversions / zero divisors
	MaxStmts      int
	NoDeco        bool
	NoHist        bool
	StateHeavy    bool // more stop / strptime / failing conversion statements (C05)
	// SelfNestedDeco allows a decorator to be used inside its own decorated
	// block (finding C01-f).
	SelfNestedDeco bool
	// DeadCapRefs lets expressions reference capture groups of conditions
	// that may not have been evaluated (behind a short-circuit, in an else
	// branch, under !~): reading them is a checked runtime error, so such
	// programs are outside the reference interpreter's use but fine for
	// differential and fault oracles.
	DeadCapRefs bool
	// Fmt turns up what the formatter has to preserve (C23): string literals
	// with \" and \\, regexes with \/, tiny bucket bounds, integral float
	// literals, hidden / as / limit attributes.
	Fmt bool
	// MetricPrefix is prepended to every metric name (several programs in one store).
	MetricPrefix string
}

// ---------------------------------------------------------------------
// Line vocabulary: lines are `a=<uint> b=<word> c=<ufloat> d=<int> e=<token> f=<float> t=<time>`
// with each field optional.

type field struct {
	key string
	re  string
	t   Type
}

var fields = []field{
	{"a", `\d+`, TInt},
	{"b", `\w+`, TString},
	{"c", `\d+\.\d+`, TFloat},
	{"d", `-?\d+`, TInt},
	{"e", `\S+`, TString},
	{"f", `-?\d+\.\d+`, TFloat},
	{"t", `\S+`, TString},
}

var fieldVals = map[string][]string{
	"a": {"0", "1", "2", "3", "7", "42", "100", "007", "63", "64", "9223372036854775807", "9223372036854775808", "4294967296"},
	"b": {"foo", "Foo", "BAR", "x", "fo", "foooo", "a1", "q_q", "12", "0"},
	"c": {"0.0", "1.5", "0.25", "2.0", "3.75", "100.125", "123456.789", "0.1"},
	"d": {"0", "-1", "1", "-7", "5", "-9223372036854775808", "9223372036854775807", "-9223372036854775809", "62", "-0"},
	"e": {"x-y", "foo", "a/b", "3", "1.5", "-", "é", "ff", "0x1F", "abc", "-12", "1e3"},
	"f": {"-1.5", "0.0", "2.5", "-0.25", "10.0", "-100.5"},
	"t": timeVals,
}

var timeVals = []string{"2021-03-04T05:06:07Z", "2019-12-31T23:59:59Z", "2021-03-04", "2021-03-04", "notatime", "2021-13-45T00:00:00Z", "1999-01-01T00:00:00Z", "2020-11-12"}

// GenLine produces one log line.
func GenLine(r *ev.RNG) string {
	if r.Intn(25) == 0 {
		return ev.PickOne(r, []string{"", "garbage", "a= b= c=", "=", "a=1b=2", "a=x d=y"})
	}
	var parts []string
	p := 0.35 + 0.5*r.Float()
	for _, f := range fields {
		if r.Chance(p) {
			parts = append(parts, f.key+"="+ev.PickOne(r, fieldVals[f.key]))
		}
	}

	return strings.Join(parts, " ")
}

// ---------------------------------------------------------------------

type capVar struct {
	pat *Pattern
	idx int
	t   Type
	// dead captures are declared in the scope (and therefore shadow outer
	// ones with the same name) but must not be referenced: the pattern may not
	// have matched (else branch, after ||, negated match).
	dead bool
}

func deadCaps(p *Pattern) []capVar {
	cs := []capVar{{p, 0, TString, true}} // group 0: the matched text
	for i, grp := range p.Groups {
		cs = append(cs, capVar{p, i + 1, grp.T, true})
	}
	return cs
}

// patternOf returns the pattern a condition declares captures for, if any.
func patternOf(c Expr) *Pattern {
	switch n := c.(type) {
	case *PatCond:
		return n.Pat
	case *Match:
		return n.Pat
	case *Bin:
		if pc, ok := n.L.(*PatCond); ok {
			return pc.Pat
		}
		if m, ok := n.R.(*Match); ok {
			return m.Pat
		}
	}
	return nil
}

type genCtx struct {
	r       *ev.RNG
	o       Opts
	p       *Program
	caps    []capVar
	depth   int
	npat    int
	nstmts  int
	inDef   bool
	nextOK  *bool // inside def: whether `next` still has to be emitted
	timeSet bool  // settime/strptime executed earlier in this straight-line block
	feat    map[string]int
	metrics []*Metric
	constN  int
	// noMetric > 0 suppresses metric reads: used for index keys (keeps
	// expressions small) and for mixed Int/Float operations, where an operand
	// whose type is still a type variable would be unified with the wrong type.
	noMetric  int
	openDecos []*DecoDef // decorators whose decorated block is being generated
	// lastKeys remembers the key expressions of the latest write to a
	// dimensioned metric, so that del / reads can address a datum that exists.
	lastKeys map[*Metric][]Expr
	zeroM *Metric // counter only ever indexed by $0
}

func (g *genCtx) f(name string) { g.feat[name]++ }

// newPattern builds a pattern over 1-2 fields.
func (g *genCtx) newPattern(forceGroups bool) *Pattern {
	r := g.r
	p := &Pattern{ID: g.npat}
	g.npat++
	n := 1
	if r.Intn(3) == 0 {
		n = 2
	}
	i := r.Intn(len(fields))
	var re strings.Builder
	if r.Intn(5) == 0 {
		re.WriteString("^")
		i = 0
	}
	var lits []string
	if g.o.Fmt && r.Intn(4) == 0 {
		re.WriteString(ev.PickOne(r, []string{`(?:x\/y)?`, `(?:x\/y)?`, `(?:x\\\/y)?`, `(?:\\\/)?`, `(?:température)?`, `(?:°\/é)?`}))
	}
	for k := 0; k < n && i < len(fields); k++ {
		f := fields[i]
		name := ""
		if r.Intn(3) == 0 {
			name = fmt.Sprintf("%s%d", f.key, p.ID)
		}
		grp := "(" + f.re + ")"
		if name != "" {
			grp = "(?P<" + name + ">" + f.re + ")"
		}
		seg := f.key + "=" + grp
		if k > 0 {
			if r.Intn(3) == 0 {
				// optional trailing group: ( x=(..))?
				seg = "( .*" + seg + ")?"
				p.Groups = append(p.Groups, Group{"", TString})
				g.f("optional-group")
			} else {
				seg = " .*" + seg
			}
		}
		p.Groups = append(p.Groups, Group{name, f.t})
		lits = append(lits, seg)
		i += 1 + r.Intn(2)
	}
	_ = forceGroups
	for _, l := range lits {
		re.WriteString(l)
	}
	full := re.String()
	p.Regex = full
	// split into parts; maybe turn one part into a const fragment
	if len(lits) == 2 && r.Intn(3) == 0 {
		cname := fmt.Sprintf("K%d", g.constN)
		g.constN++
		g.p.Consts = append(g.p.Consts, &ConstDef{cname, lits[1]})
		first := strings.TrimSuffix(full, lits[1])
		p.Parts = []PatPart{{Lit: first}, {Const: cname}}
		g.f("const-fragment")
	} else if r.Intn(6) == 0 && !strings.HasPrefix(full, "^") {
		// literal concatenation  /^/ + /rest/  (still the same regex text modulo the anchor)
		p.Parts = []PatPart{{Lit: full[:2]}, {Lit: full[2:]}}
		g.f("pattern-concat")
	} else {
		p.Parts = []PatPart{{Lit: full}}
	}
	return p
}

func (g *genCtx) metric(kind string, t Type, nkeys int) *Metric {
	// reuse an existing compatible metric most of the time
	var cands []*Metric
	for _, m := range g.metrics {
		if m.Type == t && len(m.Keys) == nkeys && ((kind == "" && m.Kind != "histogram") || m.Kind == kind) {
			cands = append(cands, m)
		}
	}
	if len(cands) > 0 && g.r.Intn(4) > 0 {
		return ev.PickOne(g.r, cands)
	}
	if kind == "" {
		if t == TString {
			kind = ev.PickOne(g.r, []string{"text", "gauge"})
			if kind == "gauge" {
				kind = "text" // String-typed gauges are legal but exercised by C04's loose generator
			}
		} else {
			kind = ev.PickOne(g.r, []string{"counter", "gauge", "gauge", "timer"})
		}
	}
	m := &Metric{Name: fmt.Sprintf("%sm%d", g.o.MetricPrefix, len(g.metrics)), Kind: kind, Type: t}
	for i := 0; i < nkeys; i++ {
		m.Keys = append(m.Keys, fmt.Sprintf("k%d", i))
		kt := TString
		if g.r.Intn(4) == 0 {
			kt = TInt
		}
		m.KeyTypes = append(m.KeyTypes, kt)
	}
	if g.r.Intn(8) == 0 || (g.o.Fmt && g.r.Intn(3) == 0) {
		m.Hidden = true
		g.f("hidden")
	}
	if g.r.Intn(10) == 0 || (g.o.Fmt && g.r.Intn(3) == 0) {
		m.As = m.Name + "-x"
		g.f("as")
	}
	if nkeys > 0 && g.r.Intn(8) == 0 {
		m.Limit = g.r.Range(1, 20)
		g.f("limit")
	}
	if kind == "histogram" {
		m.Buckets = [][]float64{{1, 2, 4}, {0.5, 1.5, 10, 100}, {1, 1000}}[g.r.Intn(3)]
		if g.o.Fmt && g.r.Bool() {
			m.Buckets = [][]float64{{1e-7, 1e-6, 1}, {0.00000025, 0.5}, {1, 2.5, 1e12}}[g.r.Intn(3)]
		}
	}
	g.metrics = append(g.metrics, m)
	return m
}

func (g *genCtx) capsOf(t Type) []capVar {
	var out []capVar
	seen := map[string]bool{}
	// innermost definitions shadow outer ones (by rendered name)
	for i := len(g.caps) - 1; i >= 0; i-- {
		c := g.caps[i]
		if c.idx == 0 {
			continue // $0 is only generated as a bare index key, see keyExprs
		}
		names := []string{fmt.Sprint(c.idx)}
		if n := c.pat.Groups[c.idx-1].Name; n != "" {
			names = append(names, n)
		}
		vis := true
		for _, n := range names {
			if seen[n] {
				vis = false
			}
		}
		// a numbered reference $k resolves to the innermost pattern that has group k
		if vis && c.t == t && (!c.dead || (g.o.DeadCapRefs && g.r.Intn(3) == 0)) {
			if c.dead {
				g.f("dead-capture-reference")
			}
			out = append(out, c)
		}
		for _, n := range names {
			seen[n] = true
		}
	}
	return out
}

func (g *genCtx) capref(c capVar) *Capref {
	grp := c.pat.Groups[c.idx-1]
	named := grp.Name != "" && g.r.Bool()
	// the numbered form is only usable if no inner pattern re-defines $idx
	if !named {
		for i := len(g.caps) - 1; i >= 0; i-- {
			if g.caps[i].idx == c.idx {
				if g.caps[i].pat != c.pat {
					if grp.Name == "" {
						return nil
					}
					named = true
				}
				break
			}
		}
	} else {
		g.f("named-capref")
	}
	return &Capref{Pat: c.pat, Idx: c.idx, Named: named, T: c.t}
}

// keysFor returns key expressions for a write (fresh ones, remembered) or for a
// del / read (often the remembered ones, when their captures are literal-only).
func (g *genCtx) keysFor(m *Metric, write bool) []Expr {
	if g.lastKeys == nil {
		g.lastKeys = map[*Metric][]Expr{}
	}
	if !write {
		if ks, ok := g.lastKeys[m]; ok && g.r.Intn(5) < 3 {
			return ks
		}
		return g.keyExprs(m)
	}
	ks := g.keyExprs(m)
	constant := true
	for _, k := range ks {
		switch k.(type) {
		case *StrLit, *IntLit:
		default:
			constant = false
		}
	}
	if constant && len(ks) > 0 {
		g.lastKeys[m] = ks
	}
	return ks
}

func (g *genCtx) keyExprs(m *Metric) []Expr {
	g.noMetric++
	defer func() { g.noMetric-- }()
	var ks []Expr
	for _, kt := range m.KeyTypes {
		if kt == TInt {
			ks = append(ks, g.intExpr(1))
			continue
		}
		ks = append(ks, g.strExpr(1))
	}
	return ks
}

var smallInts = []int64{0, 1, 2, 3, 5, 7, 10, 63, 64, 100, -1, -2, -7, 255, 1 << 31, 1 << 40, math.MaxInt64, math.MinInt64}
var floatLits = []float64{0.5, 1.5, 0.25, -3.0, 2.0, 100.0, 1e10, 0.1, -0.75}

func (g *genCtx) intLeaf() Expr {
	cs := g.capsOf(TInt)
	switch k := g.r.Intn(10); {
	case k < 4 && len(cs) > 0:
		if c := g.capref(ev.PickOne(g.r, cs)); c != nil {
			return c
		}
	case k < 6:
		if e := g.metricRead(TInt); e != nil {
			return e
		}
	case k == 6 && g.timeSet:
		g.f("timestamp")
		return &Call{Name: "timestamp", T: TInt}
	case k == 7 && g.noMetric == 0 && g.r.Intn(2) == 0:
		// m++ / m-- used for its value
		m := g.metric("", TInt, ev.PickOne(g.r, []int{0, 0, 1}))
		if m.Type == TInt && m.Kind != "histogram" {
			op := "++"
			if g.r.Intn(4) == 0 && m.Kind != "counter" {
				op = "--"
			}
			g.f("inc-as-value" + op)
			return &IncExpr{M: m, Keys: g.keysFor(m, true), Op: op}
		}
	}
	return &IntLit{ev.PickOne(g.r, smallInts)}
}

func (g *genCtx) metricRead(t Type) Expr {
	if g.noMetric > 0 {
		return nil
	}
	var cands []*Metric
	for _, m := range g.metrics {
		if m.Type == t && m.Kind != "histogram" {
			cands = append(cands, m)
		}
	}
	if len(cands) == 0 {
		return nil
	}
	m := ev.PickOne(g.r, cands)
	g.f("metric-read")
	return &MetricRead{M: m, Keys: g.keyExprs(m)}
}

func isConst(e Expr) bool {
	switch n := e.(type) {
	case *IntLit, *FloatLit:
		return true
	case *Bin:
		return isConst(n.L) && isConst(n.R)
	}
	return false
}

// nonConstInt returns an Int expression with at least one non-constant leaf,
// or nil if none is available.
func (g *genCtx) nonConstInt(depth int) Expr {
	for try := 0; try < 4; try++ {
		e := g.intExpr(depth)
		if !isConst(e) {
			return e
		}
	}
	return nil
}

func (g *genCtx) intExpr(depth int) Expr {
	r := g.r
	if depth <= 0 || r.Intn(3) == 0 {
		return g.intLeaf()
	}
	switch k := r.Intn(20); {
	case k < 8:
		op := ev.PickOne(r, []string{"+", "-", "*", "+", "-"})
		g.f("op" + op)
		return &Bin{Op: op, L: g.intExpr(depth - 1), R: g.intExpr(depth - 1), T: TInt}
	case k < 10:
		op := ev.PickOne(r, []string{"/", "%"})
		var d Expr
		if r.Intn(3) == 0 || g.o.ErrHeavy {
			d = g.nonConstInt(depth - 1)
		}
		if d == nil {
			d = &IntLit{ev.PickOne(r, []int64{1, 2, 3, 7, -1, -2, 10, 63})}
		}
		g.f("op" + op)
		return &Bin{Op: op, L: g.intExpr(depth - 1), R: d, T: TInt}
	case k < 11:
		g.f("op**")
		base := Expr(&IntLit{int64(r.Range(-3, 3))})
		if r.Bool() {
			base = &Bin{Op: "%", L: g.intExpr(depth - 1), R: &IntLit{4}, T: TInt}
		}
		return &Bin{Op: "**", L: base, R: &IntLit{int64(r.Intn(5))}, T: TInt}
	case k < 14:
		op := ev.PickOne(r, []string{"&", "|", "^"})
		g.f("op" + op)
		l, rr := g.intExpr(depth-1), g.intExpr(depth-1)
		if r.Intn(4) == 0 {
			g.f("op~")
			l = &BitNot{l}
		}
		if r.Intn(6) == 0 {
			g.f("op~")
			rr = &BitNot{rr}
		}
		return &Bin{Op: op, L: l, R: rr, T: TInt}
	case k < 16:
		op := ev.PickOne(r, []string{"<<", ">>"})
		g.f("op" + op)
		var cnt Expr = &IntLit{int64(r.Intn(63))}
		if r.Intn(4) == 0 {
			if e := g.nonConstInt(depth - 1); e != nil {
				cnt = &Bin{Op: "%", L: e, R: &IntLit{63}, T: TInt}
			}
		}
		l := g.intExpr(depth - 1)
		if r.Intn(5) == 0 {
			g.f("op~")
			l = &BitNot{l}
		}
		return &Bin{Op: op, L: l, R: cnt, T: TInt}
	case k < 17:
		g.f("len")
		return &Call{Name: "len", Args: []Expr{g.strExpr(depth - 1)}, T: TInt}
	case k < 18:
		g.f("strtol")
		base := ev.PickOne(r, []int64{16, 10, 8, 2, 36})
		if r.Intn(8) == 0 {
			base = ev.PickOne(r, []int64{0, -1, 1, 37})
		}
		return &Call{Name: "strtol", Args: []Expr{g.strExpr(depth - 1), &IntLit{base}}, T: TInt}
	case k < 19:
		g.f("int()")
		return &Call{Name: "int", Args: []Expr{g.strExpr(depth - 1)}, T: TInt}
	}
	return g.intLeaf()
}

func (g *genCtx) floatLeaf() Expr {
	cs := g.capsOf(TFloat)
	switch k := g.r.Intn(10); {
	case k < 4 && len(cs) > 0:
		if c := g.capref(ev.PickOne(g.r, cs)); c != nil {
			return c
		}
	case k < 6:
		if e := g.metricRead(TFloat); e != nil {
			return e
		}
	}
	if g.o.Fmt && g.r.Intn(3) == 0 {
		return &FloatLit{ev.PickOne(g.r, []float64{5.0, 1.0, 0.0, 1e-7, 100000000.0, 1e21, 2.5e-10})}
	}
	return &FloatLit{ev.PickOne(g.r, floatLits)}
}

func (g *genCtx) floatExpr(depth int) Expr {
	r := g.r
	if depth <= 0 || r.Intn(3) == 0 {
		return g.floatLeaf()
	}
	switch k := r.Intn(12); {
	case k < 7:
		op := ev.PickOne(r, []string{"+", "-", "*", "/", "%", "**"})
		var l, rr Expr
		switch r.Intn(3) {
		case 0:
			l, rr = g.floatExpr(depth-1), g.floatExpr(depth-1)
		case 1:
			g.noMetric++
			l, rr = g.intExpr(depth-1), g.floatExpr(depth-1)
			g.noMetric--
			g.f("mixed-arith")
		default:
			g.noMetric++
			l, rr = g.floatExpr(depth-1), g.intExpr(depth-1)
			g.noMetric--
			g.f("mixed-arith")
		}
		if op == "/" || op == "%" {
			// no literal/constant zero divisor
			if isConst(rr) {
				rr = &FloatLit{ev.PickOne(r, []float64{0.5, 2.0, -4.0, 1.5})}
			}
		}
		g.f("fop" + op)
		return &Bin{Op: op, L: l, R: rr, T: TFloat}
	case k < 9:
		g.f("float()")
		if r.Bool() {
			return &Call{Name: "float", Args: []Expr{g.intExpr(depth - 1)}, T: TFloat}
		}
		return &Call{Name: "float", Args: []Expr{g.strExpr(depth - 1)}, T: TFloat}
	}
	return g.floatLeaf()
}

var strLits = []string{"", "x", "foo", "Foo", "BAR", "12", "-5", "1.5", "ff", "a b", "o"}

func (g *genCtx) strLeaf() Expr {
	if g.o.Fmt && g.r.Intn(4) == 0 {
		return &StrLit{ev.PickOne(g.r, []string{`a\"b`, `c\\d`, `\"`, `say \"hi\" \\o/`, `tab\there`, `dir\\\" next`, `\\\"`, `ends\\`, `\\\\\"q`, `café °C`, `naïve \"x\" ✓`})}
	}
	cs := g.capsOf(TString)
	switch k := g.r.Intn(10); {
	case k < 5 && len(cs) > 0:
		if c := g.capref(ev.PickOne(g.r, cs)); c != nil {
			return c
		}
	case k < 6:
		if e := g.metricRead(TString); e != nil {
			return e
		}
	case k == 6:
		g.f("getfilename")
		return &Call{Name: "getfilename", T: TString}
	}
	return &StrLit{ev.PickOne(g.r, strLits)}
}

func (g *genCtx) strExpr(depth int) Expr {
	r := g.r
	if depth <= 0 || r.Intn(2) == 0 {
		return g.strLeaf()
	}
	switch r.Intn(9) {
	case 0:
		g.f("tolower")
		return &Call{Name: "tolower", Args: []Expr{g.strExpr(depth - 1)}, T: TString}
	case 1:
		g.f("subst")
		return &Call{Name: "subst", Args: []Expr{&StrLit{ev.PickOne(r, []string{"o", "foo", "x", "1"})}, &StrLit{ev.PickOne(r, []string{"", "0", "zz"})}, g.strExpr(depth - 1)}, T: TString}
	case 2:
		g.f("subst-re")
		return &SubstRe{Re: ev.PickOne(r, []string{`o+`, `[A-Z]`, `\d`, `^f`}), New: &StrLit{ev.PickOne(r, []string{"", "_", "9"})}, Val: g.strExpr(depth - 1)}
	case 3:
		g.f("string(int)")
		return &Call{Name: "string", Args: []Expr{g.intExpr(depth - 1)}, T: TString}
	case 4:
		g.f("string(float)")
		return &Call{Name: "string", Args: []Expr{&FloatLit{ev.PickOne(r, []float64{1.5, 0.25, -3})}}, T: TString}
	case 5, 6:
		g.f("concat")
		return &Bin{Op: "+", L: g.strExpr(depth - 1), R: g.strExpr(depth - 1), T: TString}
	}
	return g.strLeaf()
}

func (g *genCtx) exprOf(t Type, depth int) Expr {
	switch t {
	case TInt:
		return g.intExpr(depth)
	case TFloat:
		return g.floatExpr(depth)
	}
	return g.strExpr(depth)
}

// cmp generates a comparison.
func (g *genCtx) cmp(depth int) Expr {
	r := g.r
	op := ev.PickOne(r, []string{"<", "<=", ">", ">=", "==", "!="})
	g.f("cmp" + op)
	switch r.Intn(5) {
	case 0:
		g.f("cmp-string")
		return &Bin{Op: op, L: g.strExpr(depth), R: g.strExpr(depth), T: TBool}
	case 1:
		g.f("cmp-float")
		return &Bin{Op: op, L: g.floatExpr(depth), R: g.floatExpr(depth), T: TBool}
	case 2:
		g.f("cmp-mixed")
		g.noMetric++
		defer func() { g.noMetric-- }()
		if r.Bool() {
			return &Bin{Op: op, L: g.intExpr(depth), R: g.floatExpr(depth), T: TBool}
		}
		return &Bin{Op: op, L: g.floatExpr(depth), R: g.intExpr(depth), T: TBool}
	}
	return &Bin{Op: op, L: g.intExpr(depth), R: g.intExpr(depth), T: TBool}
}

// boolNoPat generates a boolean expression without any pattern.
func (g *genCtx) boolNoPat(depth int) Expr {
	if depth > 0 && g.r.Intn(3) == 0 {
		op := ev.PickOne(g.r, []string{"&&", "||"})
		g.f("logical" + op)
		return &Bin{Op: op, L: g.boolNoPat(depth - 1), R: g.boolNoPat(depth - 1), T: TBool}
	}
	return g.cmp(depth)
}

// errRHS is a boolean whose evaluation raises a runtime error (makes
// short-circuit evaluation observable), when a suitable operand exists.
func (g *genCtx) errRHS() Expr {
	return &Bin{Op: "==", L: &Call{Name: "int", Args: []Expr{&StrLit{"zz"}}, T: TInt}, R: &IntLit{0}, T: TBool}
}

// condition returns the condition and the captures it makes visible in the
// Then-block.
func (g *genCtx) condition() (Expr, []capVar) {
	r := g.r
	mkCaps := func(p *Pattern) []capVar {
		cs := []capVar{{p, 0, TString, false}} // group 0: the matched text
		for i, grp := range p.Groups {
			cs = append(cs, capVar{p, i + 1, grp.T, false})
		}
		return cs
	}
	switch k := r.Intn(20); {
	case k < 9:
		p := g.newPattern(false)
		g.f("cond-pattern")
		return &PatCond{p}, mkCaps(p)
	case k < 12:
		// pattern && expr-using-its-captures
		p := g.newPattern(false)
		cs := mkCaps(p)
		saved := g.caps
		g.caps = append(append([]capVar{}, g.caps...), cs...)
		rhs := g.boolNoPat(1)
		if r.Intn(6) == 0 {
			rhs = g.errRHS()
			g.f("short-circuit-probe")
		}
		g.caps = saved
		g.f("cond-pattern&&")
		return &Bin{Op: "&&", L: &PatCond{p}, R: rhs, T: TBool}, cs
	case k < 13:
		// pattern || expr : captures must not be used afterwards
		p := g.newPattern(false)
		saved := g.caps
		g.caps = append(append([]capVar{}, g.caps...), deadCaps(p)...)
		rhs := g.boolNoPat(1)
		g.caps = saved
		if r.Intn(3) == 0 {
			rhs = g.errRHS()
			g.f("short-circuit-probe")
		}
		g.f("cond-pattern||")
		return &Bin{Op: "||", L: &PatCond{p}, R: rhs, T: TBool}, deadCaps(p)
	case k == 15 && len(g.caps) > 0 && !strings.Contains(g.caps[len(g.caps)-1].pat.Regex, "/"):
		// e =~ /re/ with the SAME regex text as an enclosing pattern, applied to
		// another subject: its captures shadow the outer ones inside, and the
		// outer ones must be intact again afterwards
		outer := g.caps[len(g.caps)-1].pat
		p := &Pattern{ID: g.npat, Regex: outer.Regex, Groups: outer.Groups, Parts: []PatPart{{Lit: outer.Regex}}}
		g.npat++
		var subj Expr = &StrLit{"a=7 b=zz c=1.5 d=-3 e=tok f=2.5 t=2021-03-04"}
		switch r.Intn(3) {
		case 0:
			subj = &Call{Name: "getfilename", T: TString}
		case 1:
			if cs := g.capsOf(TString); len(cs) > 0 {
				if cr := g.capref(ev.PickOne(r, cs)); cr != nil {
					subj = cr
				}
			}
		}
		g.f("match-same-text-as-outer")
		return &Match{E: subj, Pat: p}, mkCaps(p)
	case k < 15:
		// e =~ /re/
		var c Expr
		if cs := g.capsOf(TString); len(cs) > 0 {
			if cr := g.capref(ev.PickOne(r, cs)); cr != nil {
				c = cr
			}
		}
		if c == nil {
			c = &Call{Name: "getfilename", T: TString}
		}
		p := &Pattern{ID: g.npat}
		g.npat++
		alt := ev.PickOne(r, []struct {
			re string
			gs []Group
		}{{`^f(o+)$`, []Group{{"", TString}}}, {`^(\d+)$`, []Group{{"", TInt}}}, {`^[A-Z]+$`, nil}, {`(?P<w` + fmt.Sprint(p.ID) + `>[a-z])(\d)?`, []Group{{"w" + fmt.Sprint(p.ID), TString}, {"", TString}}}})
		p.Regex, p.Groups = alt.re, alt.gs
		p.Parts = []PatPart{{Lit: alt.re}}
		neg := r.Intn(4) == 0
		g.f("match-op")
		if neg {
			return &Match{E: c, Pat: p, Neg: true}, deadCaps(p)
		}
		return &Match{E: c, Pat: p}, mkCaps(p)
	case k == 17:
		// a pattern without capture groups that matches a proper part of the
		// line ($0 is that part, not the line)
		p := &Pattern{ID: g.npat}
		g.npat++
		p.Regex = ev.PickOne(r, []string{`b=\w+`, `d=-?\d`, `t=\d+-\d+`, `[c-f]=\S`, `a=\d`})
		p.Parts = []PatPart{{Lit: p.Regex}}
		g.f("cond-pattern-without-groups")
		return &PatCond{p}, mkCaps(p)
	case k == 16:
		// expr || e =~ /re/ : when expr holds the match is never evaluated, so
		// its captures are declared in the block but must not be used there
		var subj Expr = &Call{Name: "getfilename", T: TString}
		if cs := g.capsOf(TString); len(cs) > 0 && r.Bool() {
			if cr := g.capref(ev.PickOne(r, cs)); cr != nil {
				subj = cr
			}
		}
		lhs := g.boolNoPat(1)
		// prefer a left side that changes from line to line: an enclosing
		// numeric capture against a mid-range literal
		if cs := g.capsOf(TInt); len(cs) > 0 {
			if cr := g.capref(ev.PickOne(r, cs)); cr != nil {
				lhs = &Bin{Op: ev.PickOne(r, []string{"<", ">=", "!="}), L: cr, R: &IntLit{ev.PickOne(r, []int64{2, 5, 7, 10})}, T: TBool}
			}
		}
		p := &Pattern{ID: g.npat}
		g.npat++
		alt := ev.PickOne(r, []struct {
			re string
			gs []Group
		}{{`(\w)`, []Group{{"", TString}}}, {`^(\w)(\w*)`, []Group{{"", TString}, {"", TString}}}, {`(\d+)`, []Group{{"", TInt}}}, {`(?P<v` + fmt.Sprint(p.ID) + `>[a-z]+)`, []Group{{"v" + fmt.Sprint(p.ID), TString}}}})
		p.Regex, p.Groups = alt.re, alt.gs
		p.Parts = []PatPart{{Lit: alt.re}}
		g.f("cond-expr||match")
		return &Bin{Op: "||", L: lhs, R: &Match{E: subj, Pat: p}, T: TBool}, deadCaps(p)
	}
	g.f("cond-relational")
	return g.boolNoPat(2), nil
}

func (g *genCtx) budget() bool { return g.nstmts < g.o.MaxStmts }

type scopeInfo struct {
	sawElse     bool // a conditional with else precedes in this scope
	noOtherwise bool // decorated block / def body level
	isElse      bool
}

func (g *genCtx) block(n int, sc *scopeInfo) []Stmt {
	var out []Stmt
	savedTime := g.timeSet
	for i := 0; i < n && g.budget(); i++ {
		if s := g.stmt(sc); s != nil {
			out = append(out, s)
		}
	}
	g.timeSet = savedTime
	return out
}

func (g *genCtx) stmt(sc *scopeInfo) Stmt {
	r := g.r
	g.nstmts++
	k := r.Intn(100)
	switch {
	case k < 26 && g.depth < 4:
		c, caps := g.condition()
		saved := g.caps
		g.caps = append(append([]capVar{}, g.caps...), caps...)
		g.depth++
		cs := &Cond{C: c}
		cs.Then = g.block(r.Range(1, 3), &scopeInfo{})
		if g.o.DeadCapRefs && len(caps) > 1 && caps[0].dead && r.Bool() {
			// read a capture of the condition that may not have been evaluated
			cv := ev.PickOne(r, caps[1:])
			m := g.metric("", TInt, 1)
			if len(m.KeyTypes) == 1 && m.KeyTypes[0] == cv.t && m.Kind != "histogram" {
				cr := &Capref{Pat: cv.pat, Idx: cv.idx, Named: cv.pat.Groups[cv.idx-1].Name != "", T: cv.t}
				cs.Then = append([]Stmt{&IncDec{M: m, Keys: []Expr{cr}, Op: "++"}}, cs.Then...)
				g.f("dead-capture-reference")
			}
		}
		g.caps = saved
		if r.Intn(3) == 0 {
			cs.HasElse = true
			if pt := patternOf(c); pt != nil {
				g.caps = append(append([]capVar{}, g.caps...), deadCaps(pt)...)
			}
			cs.Else = g.block(r.Range(0, 2), &scopeInfo{isElse: true})
			g.caps = saved
			sc.sawElse = true
			g.f("else")
		}
		g.depth--
		return cs
	case k < 32 && g.depth < 4:
		okPlain := !sc.noOtherwise && !sc.isElse
		okElse := sc.isElse && g.o.ElseOtherwise
		if !(okPlain || okElse) {
			return g.simple()
		}
		if okElse {
			g.f("otherwise-in-else")
		}
		g.f("otherwise")
		g.depth++
		o := &Otherwise{Body: g.block(r.Range(1, 2), &scopeInfo{})}
		g.depth--
		return o
	case k < 36 && g.depth < 3 && !g.o.NoDeco && !g.inDef && len(g.p.Decos) < 2:
		// define a decorator and use it
		g.f("decorator")
		def := &DecoDef{Name: fmt.Sprintf("deco%d", len(g.p.Decos))}
		g.p.Decos = append(g.p.Decos, def)
		savedCaps, savedDepth, savedTime := g.caps, g.depth, g.timeSet
		g.caps, g.depth = nil, 1
		g.inDef = true
		g.timeSet = false // the definition is instantiated at other sites too
		c, caps := g.condition()
		g.caps = caps
		// half of the time `next` sits under two nested conditions, so that
		// the decorated block sees the captures of both (the inner one
		// shadowing equal group numbers of the outer one)
		var c2 Expr
		if r.Intn(2) == 0 {
			var caps2 []capVar
			c2, caps2 = g.condition()
			caps = append(append([]capVar{}, caps...), caps2...)
			g.caps = caps
			g.f("decorator-next-under-two-conditions")
		}
		var inner []Stmt
		inner = append(inner, g.block(r.Intn(2), &scopeInfo{noOtherwise: true})...)
		inner = append(inner, &Next{})
		inner = append(inner, g.block(r.Intn(2), &scopeInfo{noOtherwise: true})...)
		if c2 != nil {
			inner = []Stmt{&Cond{C: c2, Then: inner}}
		}
		def.Body = []Stmt{&Cond{C: c, Then: inner}}
		g.inDef = false
		g.timeSet = savedTime
		// the decorated block sees the decorator's captures
		g.caps = append(append([]capVar{}, savedCaps...), caps...)
		g.depth = savedDepth + 1
		g.openDecos = append(g.openDecos, def)
		d := &Deco{Def: def, Body: g.block(r.Range(1, 3), &scopeInfo{noOtherwise: true})}
		g.openDecos = g.openDecos[:len(g.openDecos)-1]
		g.caps, g.depth = savedCaps, savedDepth
		return d
	case k < 38 && len(g.p.Decos) > 0 && !g.inDef && g.depth < 3:
		// re-use an existing decorator
		def := ev.PickOne(r, g.p.Decos)
		for _, open := range g.openDecos {
			if open == def {
				if !g.o.SelfNestedDeco {
					return g.simple()
				}
				g.f("decorator-self-nested")
			}
		}
		g.openDecos = append(g.openDecos, def)
		defer func() { g.openDecos = g.openDecos[:len(g.openDecos)-1] }()
		g.f("decorator-reuse")
		var caps []capVar
		// the captures visible at `next`: those of the definition's condition
		// and, when next sits under a second condition, of that one too
		for c, ok := def.Body[0].(*Cond); ok; {
			if pt := patternOf(c.C); pt != nil {
				usable := false
				switch cc := c.C.(type) {
				case *PatCond:
					usable = true
				case *Bin:
					usable = cc.Op == "&&"
				case *Match:
					usable = !cc.Neg
				}
				caps = append(caps, capVar{pt, 0, TString, !usable})
				for i, grp := range pt.Groups {
					caps = append(caps, capVar{pt, i + 1, grp.T, !usable})
				}
			}
			if len(c.Then) == 1 {
				c, ok = c.Then[0].(*Cond)
			} else {
				ok = false
			}
		}
		saved := g.caps
		g.caps = append(append([]capVar{}, g.caps...), caps...)
		g.depth++
		d := &Deco{Def: def, Body: g.block(r.Range(1, 2), &scopeInfo{noOtherwise: true})}
		g.depth--
		g.caps = saved
		return d
	}
	return g.simple()
}

func (g *genCtx) simple() Stmt {
	r := g.r
	k := r.Intn(100)
	if g.o.StateHeavy && r.Intn(4) == 0 {
		k = 86 + r.Intn(14)
	}
	switch {
	case k < 30:
		// assignment
		t := ev.PickOne(r, []Type{TInt, TInt, TFloat, TString})
		m := g.metric("", t, ev.PickOne(r, []int{0, 0, 1, 1, 2}))
		if m.Kind == "counter" && r.Intn(3) > 0 {
			// counters are mostly incremented
			return g.incOrAdd(m)
		}
		g.f("assign-" + t.String())
		if t == TString {
			// no metric reads in stored strings: `m = m + m` doubles every line
			g.noMetric++
			defer func() { g.noMetric-- }()
		}
		return &Assign{M: m, Keys: g.keysFor(m, true), Op: "=", E: g.exprOf(t, 2)}
	case k < 55:
		t := ev.PickOne(r, []Type{TInt, TInt, TInt, TFloat, TString})
		m := g.metric("", t, ev.PickOne(r, []int{0, 0, 1, 2}))
		return g.incOrAdd(m)
	case k < 62 && !g.o.NoHist:
		t := ev.PickOne(r, []Type{TInt, TFloat})
		m := g.metric("histogram", t, ev.PickOne(r, []int{0, 1}))
		g.f("histogram-observe")
		return &Assign{M: m, Keys: g.keyExprs(m), Op: "=", E: g.exprOf(t, 1)}
	case k < 72:
		// del
		var cands []*Metric
		for _, m := range g.metrics {
			if len(m.Keys) > 0 && m.Kind != "histogram" {
				cands = append(cands, m)
			}
		}
		if len(cands) == 0 {
			return g.incOrAdd(g.metric("", TInt, 1))
		}
		m := ev.PickOne(r, cands)
		d := &Del{M: m, Keys: g.keysFor(m, false)}
		if r.Intn(3) == 0 {
			d.After = ev.PickOne(r, []time.Duration{time.Hour, 90 * time.Minute, 30 * time.Second, 24 * time.Hour})
			if g.o.Fmt && r.Intn(3) == 0 {
				// durations that are not a whole number of seconds
				d.After = ev.PickOne(r, []time.Duration{1500 * time.Millisecond, 2*time.Minute + 250*time.Millisecond, 500 * time.Millisecond, time.Hour + time.Millisecond, 1001 * time.Millisecond})
			}
			g.f("del-after")
		} else {
			g.f("del")
		}
		return d
	case k < 76:
		g.f("stop")
		return &Stop{}
	case k < 82:
		g.f("settime")
		arg := g.intExpr(1)
		g.timeSet = true
		return &ExprStmt{&Call{Name: "settime", Args: []Expr{arg}}}
	case k < 92 && g.o.Strptime:
		g.f("strptime")
		layout := ev.PickOne(r, []string{"2006-01-02T15:04:05Z07:00", "2006-01-02", "2006-02-01"})
		var s Expr = &StrLit{ev.PickOne(r, timeVals)}
		if cs := g.capsOf(TString); len(cs) > 0 && r.Intn(3) > 0 {
			if c := g.capref(ev.PickOne(r, cs)); c != nil {
				s = c
			}
		}
		g.timeSet = true
		return &ExprStmt{&Call{Name: "strptime", Args: []Expr{s, &StrLit{layout}}}}
	case k < 96 && g.o.ErrHeavy:
		g.f("failing-conversion")
		m := g.metric("", TInt, 0)
		return &Assign{M: m, Op: "=", E: &Call{Name: "int", Args: []Expr{g.strExpr(1)}, T: TInt}}
	}
	if k >= 97 {
		// count by $0, the text the innermost pattern matched. The checker
		// leaves $0 untyped, so it is only used as the bare key of a metric
		// that is never indexed by anything else.
		var zero *capVar
		for i := len(g.caps) - 1; i >= 0 && zero == nil; i-- {
			if g.caps[i].idx == 0 {
				zero = &g.caps[i]
			}
		}
		if zero != nil && !zero.dead {
			if g.zeroM == nil {
				g.zeroM = &Metric{Name: g.o.MetricPrefix + "z0", Kind: "counter", Type: TInt, Keys: []string{"k0"}, KeyTypes: []Type{TString}}
			}
			g.f("capref-$0")
			return &IncDec{M: g.zeroM, Keys: []Expr{&Capref{Pat: zero.pat, Idx: 0, T: TString}}, Op: "++"}
		}
	}
	return g.incOrAdd(g.metric("", TInt, ev.PickOne(r, []int{0, 1})))
}

func (g *genCtx) incOrAdd(m *Metric) Stmt {
	r := g.r
	if m.Type == TInt && r.Intn(2) == 0 {
		op := "++"
		if r.Intn(4) == 0 && m.Kind != "counter" {
			op = "--"
		}
		g.f("incdec" + op)
		return &IncDec{M: m, Keys: g.keysFor(m, true), Op: op}
	}
	g.f("add-assign-" + m.Type.String())
	if m.Type == TString {
		g.noMetric++
		defer func() { g.noMetric-- }()
	}
	return &Assign{M: m, Keys: g.keyExprs(m), Op: "+=", E: g.exprOf(m.Type, 2)}
}

// usedMetrics walks the program and returns the metrics referenced.
func usedMetrics(p *Program) map[*Metric]bool {
	used := map[*Metric]bool{}
	var ve func(Expr)
	var vs func([]Stmt)
	ves := func(es []Expr) {
		for _, e := range es {
			ve(e)
		}
	}
	ve = func(e Expr) {
		switch n := e.(type) {
		case *MetricRead:
			used[n.M] = true
			ves(n.Keys)
		case *IncExpr:
			used[n.M] = true
			ves(n.Keys)
		case *Bin:
			ve(n.L)
			ve(n.R)
		case *BitNot:
			ve(n.E)
		case *Call:
			ves(n.Args)
		case *SubstRe:
			ve(n.New)
			ve(n.Val)
		case *Match:
			ve(n.E)
		}
	}
	vs = func(ss []Stmt) {
		for _, s := range ss {
			switch n := s.(type) {
			case *Cond:
				ve(n.C)
				vs(n.Then)
				vs(n.Else)
			case *Otherwise:
				vs(n.Body)
			case *Assign:
				used[n.M] = true
				ves(n.Keys)
				ve(n.E)
			case *IncDec:
				used[n.M] = true
				ves(n.Keys)
			case *Del:
				used[n.M] = true
				ves(n.Keys)
			case *Deco:
				vs(n.Body)
			case *ExprStmt:
				ve(n.E)
			}
		}
	}
	vs(p.Stmts)
	for _, d := range p.Decos {
		vs(d.Body)
	}
	return used
}

// anchoredT returns the type an expression certainly has independent of the
// (inferred) types of metrics, or -1.
func anchoredT(e Expr) Type {
	switch n := e.(type) {
	case *IntLit:
		return TInt
	case *FloatLit:
		return TFloat
	case *StrLit, *SubstRe:
		return TString
	case *Capref:
		return n.T
	case *Call:
		return n.T
	case *BitNot:
		return TInt
	case *Bin:
		switch n.Op {
		case "&", "|", "^", "<<", ">>":
			return TInt
		case "+", "-", "*", "/", "%", "**":
			a, b := anchoredT(n.L), anchoredT(n.R)
			switch {
			case a == TString || b == TString:
				return TString
			case a == TFloat || b == TFloat:
				return TFloat
			case a == TInt && b == TInt:
				return TInt
			}
		}
	}
	return -1
}

// unanchored lists metrics whose value type cannot be inferred from any of
// their writes (e.g. only ever assigned from other metrics).
func unanchored(p *Program) []*Metric {
	anch := map[*Metric]bool{}
	inc := func(e Expr) {
		if n, ok := e.(*IncExpr); ok {
			anch[n.M] = true
		}
	}
	var vs func([]Stmt)
	vs = func(ss []Stmt) {
		for _, s := range ss {
			switch n := s.(type) {
			case *Cond:
				vs(n.Then)
				vs(n.Else)
			case *Otherwise:
				vs(n.Body)
			case *Deco:
				vs(n.Body)
			case *IncDec:
				anch[n.M] = true
			case *Assign:
				if n.M.Kind == "histogram" || anchoredT(n.E) == n.M.Type {
					anch[n.M] = true
				}
				WalkExpr(n.E, inc)
			case *ExprStmt:
				WalkExpr(n.E, inc)
			}
			if c, ok := s.(*Cond); ok {
				WalkExpr(c.C, inc)
			}
		}
	}
	vs(p.Stmts)
	for _, d := range p.Decos {
		vs(d.Body)
	}
	var out []*Metric
	for _, m := range p.Metrics {
		if m.Kind != "text" && !anch[m] {
			out = append(out, m)
		}
	}
	return out
}

// Generate builds one random well-typed program in which every metric's type
// is determined by at least one of its writes.
func Generate(r *ev.RNG, o Opts) *Program {
	for try := 0; ; try++ {
		p := generate(r.Sub(try), o)
		if len(unanchored(p)) == 0 || try > 50 {
			return p
		}
	}
}

func generate(r *ev.RNG, o Opts) *Program {
	if o.MaxStmts == 0 {
		o.MaxStmts = r.Range(3, 25)
	}
	g := &genCtx{r: r, o: o, p: &Program{}, feat: map[string]int{}}
	for len(g.p.Stmts) == 0 || (g.nstmts < 3 && len(g.p.Stmts) < 6) {
		g.p.Stmts = append(g.p.Stmts, g.block(r.Range(1, 6), &scopeInfo{})...)
	}
	used := usedMetrics(g.p)
	for _, m := range g.metrics {
		if used[m] {
			m.Index = len(g.p.Metrics)
			g.p.Metrics = append(g.p.Metrics, m)
		}
	}
	if g.zeroM != nil && used[g.zeroM] {
		g.zeroM.Index = len(g.p.Metrics)
		g.p.Metrics = append(g.p.Metrics, g.zeroM)
	}
	// decorators that ended up unused cannot happen (each is used when defined)
	g.p.Features = g.feat
	return g.p
}
