// C03 — the compiler terminates on any source text and never crashes.
// Monitor: outcome predicate (exactly one of object / non-empty error list,
// no panic, no process death, bounded time) + determinism of the compiled
// object, evaluated in child processes so that a crash identifies its input.
package c03

import (
	"crypto/sha256"
	"encoding/hex"
	"encoding/json"
	"fmt"
	"os"
	"path/filepath"
	"regexp"
	"runtime"
	"runtime/debug"
	"sort"
	"sync/atomic"
	"os/exec"
	"strconv"
	"strings"
	"testing"
	"time"

	"github.com/google/mtail/internal/runtime/code"
	"github.com/google/mtail/internal/runtime/compiler"
	"github.com/google/mtail/internal/runtime/compiler/parser"
	"github.com/google/mtail/verif/ev"
	"github.com/google/mtail/verif/gen"
)

const maxInput = 64 << 10

// ---------------------------------------------------------------------
// corpus

type corpus struct {
	base   []string // examples, harvested test programs, generator output
	nExamp int
	dict   []string
}

var goStr = regexp.MustCompile("(?s)`[^`]+`|\"(?:[^\"\\\\\n]|\\\\.)+\"")

func loadCorpus(seed int64) *corpus {
	c := &corpus{}
	ex, _ := filepath.Glob(filepath.Join(ev.Repo(), "examples", "*.mtail"))
	sort.Strings(ex)
	for _, f := range ex {
		if b, err := os.ReadFile(f); err == nil && len(b) < maxInput {
			c.base = append(c.base, string(b))
		}
	}
	c.nExamp = len(c.base)
	// programs embedded in the repository's own test tables (read as text)
	for _, f := range []string{"internal/runtime/compiler/checker/checker_test.go", "internal/runtime/compiler/parser/parser_test.go", "internal/runtime/compiler/codegen/codegen_test.go", "internal/runtime/compiler/parser/lexer_test.go", "internal/runtime/runtime_integration_test.go"} {
		b, err := os.ReadFile(filepath.Join(ev.Repo(), f))
		if err != nil {
			continue
		}
		for _, m := range goStr.FindAllString(string(b), -1) {
			s := m
			if m[0] == '"' {
				if u, err := strconv.Unquote(m); err == nil {
					s = u
				}
			} else {
				s = m[1 : len(m)-1]
			}
			if strings.ContainsAny(s, "{/=+") {
				c.base = append(c.base, s)
			}
		}
	}
	rng := ev.NewRNG(seed, "c03-gen")
	for i := 0; i < 150; i++ {
		p := gen.Generate(rng.Sub(i), gen.Opts{Strptime: i%3 == 0, ErrHeavy: i%4 == 0})
		c.base = append(c.base, (&gen.Renderer{Full: i%2 == 0}).Render(p))
	}
	c.dict = append(parser.Dictionary(), "{", "}", "(", ")", "[", "]", ",", "\n", "+", "-", "*", "/", "%", "**", "<<", ">>", "<", "<=", ">", ">=", "==", "!=", "=~", "!~", "&&", "||", "&", "|", "^", "~", "=", "+=", "++", "--", "$1", "$x", "@d", "/a(b)/", "\"s\"", "1", "1.5", "1h", "x", "foo", "#c\n", "␤", "0x1", "1e5", "-1", "\"", "/", "\\", "\x00", "\xff")
	sort.Strings(c.dict[:len(parser.Dictionary())])
	return c
}

func rep(s string, n int) string { return strings.Repeat(s, n) }

// structured hostile inputs
func structured(thorough bool) []string {
	all := structuredAll(thorough)
	var out []string
	for _, s := range all {
		if len(s) <= maxInput {
			out = append(out, s)
		}
	}
	return out
}

func structuredAll(thorough bool) []string {
	var out []string
	depths := []int{1, 10, 50, 99, 100, 101, 200, 1000}
	if thorough {
		depths = append(depths, 3000, 10000, 30000)
	}
	for _, d := range depths {
		out = append(out,
			"gauge g\n/x/ {\n g = "+rep("(", d)+"1"+rep(")", d)+"\n}\n",
			"gauge g\n/x/ {\n g = "+rep("~", d)+"1 & 1\n}\n",
			"counter c\n"+rep("/a/ {\n", d)+"c++\n"+rep("}\n", d),
			"counter c\n"+rep("/a/ {\n", d)+"c++\n", // unbalanced
			"counter c by k\n/x/ {\n c"+rep("[1]", d)+"++\n}\n",
			"counter c by k\n/x/ {\n c"+rep("[", d)+"1"+rep("]", d)+"++\n}\n",
			"counter c\n/a/"+rep(" + /b/", d)+" {\n c++\n}\n",
			"counter c\ndef d {\n next\n}\n"+rep("@d {\n", d)+"c++\n"+rep("}\n", d),
			"gauge g\n/x/ {\n g = 1"+rep(" + 1", d)+"\n}\n",
			"gauge g\n/x/ {\n g = 1"+rep(" ** 2", d)+"\n}\n",
			"counter c\n/a/ {\n c++\n}"+rep(" else {\n /b/ {\n c++\n }", d)+rep("\n}", d)+"\n",
			"counter c\n"+rep("otherwise {\n", d)+"c++\n"+rep("}\n", d),
			"gauge g\n/x/ {\n g = "+rep("len(", d)+"\"s\""+rep(")", d)+"\n}\n",
			"counter c\n/"+rep("(", d)+"a"+rep(")", d)+"/ {\n c++\n}\n",
			"counter c\n/x/ && "+rep("1 < 2 && ", d)+"1 < 2 {\n c++\n}\n",
			"counter c\nconst A /a/\n/x/"+rep(" + A", d)+" {\n c++\n}\n",
		)
	}
	// every binary operator over every pair of hostile constant operands (what
	// a constant folder, the type checker's coercions and codegen's operand
	// handling see), as a value, as a condition and with a non-constant sibling
	lits := []string{"0", "1", "-1", "63", "64", "-64", "9223372036854775807", "-9223372036854775808", "0.0", "-0.5", "1e308", "5e-324", "(3 - 4)", "(2 ** 70)", "\"s\"", "\"\""}
	for _, op := range []string{"+", "-", "*", "/", "%", "**", "<<", ">>", "&", "|", "^", "<", "<=", ">", ">=", "==", "!=", "&&", "||"} {
		for _, a := range lits {
			for _, b := range lits {
				out = append(out, "gauge g\n/(\\d+)/ {\n g = "+a+" "+op+" "+b+"\n}\n")
				if thorough || (len(a)+len(b))%3 == 0 {
					out = append(out, "counter c\n/(\\d+)/ {\n "+a+" "+op+" "+b+" {\n c++\n }\n}\n",
						"gauge g\n/(\\d+)/ {\n g = $1 + ("+a+" "+op+" "+b+")\n}\n")
				}
			}
		}
	}
	// characters the Unicode tables class as digits / letters / spaces but the
	// ASCII-minded parts of a lexer do not, at every kind of position
	for _, u := range []string{"٣", "１", "௧", "൩", "𝟙", "²", "Ⅷ", "\u00a0", "\u2028", "\u200b", "é", "ǅ", "\ufeff"} {
		out = append(out,
			u+"\n",
			"counter c\n"+u+"\n",
			"counter c\n"+u+" {\n c++\n}\n",
			"counter c\n/x/ {\n "+u+"\n}\n",
			"counter c\n/x/ {\n c = "+u+"\n}\n",
			"counter c\n/x/ {\n c = 1"+u+"\n}\n",
			"counter c\n/x/ {\n c = "+u+"1\n}\n",
			"counter c\n/x/ {\n c = 1."+u+"\n}\n",
			"counter c by k\n/x/ {\n c["+u+"]++\n}\n",
			"counter c by k\n/x/ {\n del c[\"a\"] after "+u+"h\n}\n",
			"counter c by k\n/x/ {\n del c[\"a\"] after 1"+u+"\n}\n",
			"counter c by k limit "+u+"\n",
			"histogram h buckets "+u+", 2\n",
			"counter c"+u+"\n/x/ {\n c"+u+"++\n}\n",
			"counter "+u+"c\n",
			"counter c\n/x/ {\n c = $"+u+"\n}\n",
			"counter c\n@"+u+" {\n}\n",
			"const "+u+" /a/\n",
		)
	}
	// every short token the lexer takes for a duration or number
	for _, a := range []string{"1", "2", "0"} {
		alpha := []string{"1", "d", "h", "m", "s", "u", ".", "-", "+", "e", "x"}
		for _, b1 := range alpha {
			for _, b2 := range append([]string{""}, alpha...) {
				for _, b3 := range append([]string{""}, alpha...) {
					if b2 == "" && b3 != "" {
						continue
					}
					tok := a + b1 + b2 + b3
					out = append(out, "counter c by k\n/x/ {\n del c[\"a\"] after "+tok+"\n}\n")
					if thorough || len(out)%5 == 0 {
						out = append(out, "gauge g\n/x/ {\n g = "+tok+"\n}\n")
					}
				}
			}
		}
	}
	// every place a pattern expression can stand x every shape of pattern
	// expression built from literals, const fragments, strings and numbers
	patExprs := []string{"P", "P + P", "/a/ + P", "P + /a/", "P + P + P", "(P)", "(P + P)", "P + \"s\"", "\"s\" + P", "\"s\" + \"t\"", "P + 1", "1 + P", "P + 1.5", "/a/ + 1", "/a/ + \"s\"", "\"s\" + /a/", "/a/ + /b/ + P", "P + Q", "Q", "/(/ + P", "P + /)/", "/(/ + /)/", "P + $1", "P + c", "-P", "P - P", "P * 2"}
	for _, pe := range patExprs {
		out = append(out,
			"const P /a/\ncounter c\n/x/ {\n subst("+pe+", \"a\", \"b\") == \"b\" {\n c++\n }\n}\n",
			"const P /a/\ncounter c\n/(?P<x>x)/ {\n $x =~ "+pe+" {\n c++\n }\n}\n",
			"const P /a/\ncounter c\n/(?P<x>x)/ {\n $x !~ "+pe+" {\n c++\n }\n}\n",
			"const P /a/\ncounter c\n"+pe+" {\n c++\n}\n",
			"const P /a/\ncounter c\n/x/ && "+pe+" {\n c++\n}\n",
			"const P /a/\nconst R "+pe+"\ncounter c\nR {\n c++\n}\n",
			"const P /a/\nconst R "+pe+"\ncounter c\n/x/ {\n subst(R, \"a\", \"b\") == \"b\" {\n c++\n }\n}\n",
			"const P /a/\ncounter c\n/x/ {\n c = len("+pe+")\n}\n",
			"const P /a/\ncounter c by k\n/x/ {\n c["+pe+"]++\n}\n",
		)
	}
	// const fragments defined from earlier fragments: each line doubles the pattern
	for _, d := range []int{3, 8, 12, 16, 20, 30} {
		var b strings.Builder
		b.WriteString("const P0 /aaaaaaaa/\n")
		for i := 1; i <= d; i++ {
			fmt.Fprintf(&b, "const P%d // + P%d + P%d\n", i, i-1, i-1)
		}
		out = append(out, b.String()+"counter c\nP"+fmt.Sprint(d)+" {\n c++\n}\n", b.String()+"counter c\n/x/ {\n c++\n}\n")
	}
	big := 3000
	if thorough {
		big = 30000
	}
	out = append(out, "gauge g\n/x/ {\n g = "+rep("(", big)+"1"+rep(")", big)+"\n}\n", "gauge g\n/x/ {\n g = "+rep("~", big)+"1 & 1\n}\n")
	for _, l := range []int{1022, 1023, 1024, 1025, 1026, 8000, 60000} {
		out = append(out, "counter c\n/"+rep("a", l)+"/ {\n c++\n}\n",
			"counter c\n/x/ {\n subst(/"+rep("a", l)+"/, \"\", \"\") == \"\" {\n c++\n}\n}\n",
			"counter c\nconst A /"+rep("a", l/2+1)+"/\n/"+rep("b", l/2)+"/ + A {\n c++\n}\n")
	}
	out = append(out,
		"counter c\n/(a{1000}){1000}/ {\n c++\n}\n",
		"counter c\n/((a{1,1000}){1,1000}){1,1000}/ {\n c++\n}\n",
		"counter c\n/(?P<x>a)(?P<x>b)/ {\n c++\n}\n",
		"counter c\n/a/ {\n c = \"unterminated\n}\n",
		"counter c\n/unterminated {\n c++\n}\n",
		"counter c\n/a\\/ {\n c++\n}\n",
		"counter c\n\"",
		"/",
		"counter \xff\xfe\n",
		"counter c\n/\xff/ {\n c++\n}\n",
		"counter c\n/a/ {\n c += \"\xc3\x28\"\n}\n",
		"counter c\x00\n/a/ {\n c++\n}\n",
		"counter c␤/a/ {␤ c++␤}␤",
		"␤",
		"gauge g\n/x/ {\n g = 99999999999999999999999999\n}\n",
		"gauge g\n/x/ {\n g = -9223372036854775809\n}\n",
		"gauge g\n/x/ {\n g = 1e999\n}\n",
		"gauge g\n/x/ {\n g = 1e-999\n}\n",
		"gauge g\n/x/ {\n g = 1.5.5\n}\n",
		"gauge g\n/x/ {\n g = 1e\n}\n",
		"gauge g\n/x/ {\n g = 1.e+\n}\n",
		"counter c by k\n/x/ {\n del c[\"a\"] after 1h2m3s4d\n}\n",
		"counter c by k\n/x/ {\n del c[\"a\"] after 99999999999999999999h\n}\n",
		"counter c by k\n/x/ {\n del c[\"a\"] after 1.5.5h-+s\n}\n",
		"counter c by k\n/x/ {\n del c[\"a\"] after 1d\n}\n",
		"counter c by "+strings.TrimSuffix(rep("k,", 2000), ",")+"\n",
		"counter c by k limit 99999999999999999999\n",
		"counter c by k limit 9223372036854775807\n/x/ {\n c[\"a\"]++\n}\n",
		"histogram h buckets "+strings.TrimSuffix(rep("1,", 5000), ",")+"\n",
		"histogram h buckets 1\n/x/ {\n h = 1\n}\n",
		"histogram h buckets 3, 2, 1\n/x/ {\n h = 1\n}\n",
		"histogram h buckets 1e999, 2\n/x/ {\n h = 1\n}\n",
		"counter c as \"\"\n/x/ {\n c++\n}\n",
		"counter \"\"\n",
		"def d {\n @d {\n next\n }\n}\n@d {\n}\n",
		"def d {\n next\n next\n}\n@d {\n}\n",
		"counter c\n@d {\n c++\n}\ndef d {\n next\n}\n",
		"next\n", "stop\n", "otherwise {\n}\n", "else {\n}\n", "} else {\n", "$1\n", "$\n", "@\n", "@ {\n}\n",
		"counter c\n/a/ {\n c++\n} else\n",
		"const A /a/\nconst A /b/\n", "const A A\n", "const A /a/ + A\n", "const A\n",
		"counter c\n/x/ {\n strptime(\"\", \"\")\n c++\n}\n",
		"counter c\n/(x)/ {\n strptime($1, $1)\n c++\n}\n",
		"counter c\n/x/ {\n c = timestamp(1, 2, 3)\n}\n",
		"counter c\n/x/ {\n c = len()\n}\n",
		"counter c\n/x/ {\n strptime(\"x\")\n c++\n}\n",
		"counter c\n/x/ {\n strptime()\n c++\n}\n",
		"counter c\n/x/ {\n c = len(tolower())\n}\n",
		"counter c\n/x/ {\n settime()\n c++\n}\n",
		"counter c\n/x/ {\n c = getfilename(1)\n}\n",
		"counter c\n/x/ {\n c = float()\n}\n",
		"counter c\n/x/ {\n c = subst(/a/, \"b\")\n}\n",
		"counter c\n/x/ {\n c = len(subst(/(/, \"b\", \"c\"))\n}\n",
		"counter c\n/x/ {\n c = strtol()\n}\n",
		"counter c\n/x/ {\n c = subst()\n}\n",
		"counter c\n/x/ {\n c = int(1, 2)\n}\n",
		"counter c\n/x/ {\n c = bool(1)\n}\n",
		"counter c\n/x/ {\n c[] = 1\n}\n",
		"counter c\n/x/ {\n c[]++\n}\n",
		"counter c\n/x/ {\n del c\n}\n",
		"counter c\n/x/ {\n del c[]\n}\n",
		"text t\n/x/ {\n t++\n}\n",
		"text t\n/x/ {\n t = t + 1\n}\n",
		"counter c\n/x/ {\n c = /y/\n}\n",
		"counter c\n/x/ {\n c =~ /y/ {\n}\n}\n",
		"counter c\n/x/ {\n 1 =~ 2 {\n c++\n}\n}\n",
		"counter c\n/x/ {\n \"a\" =~ \"(\" {\n c++\n}\n}\n",
		"counter c\n/x/ {\n \"a\" =~ \"b\" + \"(c)\" {\n c += $1\n}\n}\n",
		rep("\n", 60000), rep(" ", 60000), rep("#", 60000), rep("# c\n", 15000), rep("a", 60000), rep("1", 60000), rep("\"", 60000), rep("/", 60001), rep("$", 60000), rep("@", 60000), rep("{", 60000), rep("}", 60000), rep("counter c\n", 6000),
	)
	return out
}

func mutate(r *ev.RNG, c *corpus, s string) string {
	b := []byte(s)
	n := 1 + r.Intn(4)
	for k := 0; k < n; k++ {
		if len(b) == 0 {
			b = []byte(ev.PickOne(r, c.dict))
			continue
		}
		p := r.Intn(len(b))
		switch r.Intn(9) {
		case 0:
			b[p] ^= 1 << uint(r.Intn(8))
		case 1:
			b = append(b[:p], b[p+1:]...)
		case 2:
			b = append(b[:p], append([]byte{byte(r.Intn(256))}, b[p:]...)...)
		case 3: // duplicate a span
			q := p + r.Intn(min(len(b)-p, 40)+1)
			b = append(b[:q], append(append([]byte{}, b[p:q]...), b[q:]...)...)
		case 4: // delete a span
			q := p + r.Intn(min(len(b)-p, 40)+1)
			b = append(b[:p], b[q:]...)
		case 5: // truncate
			b = b[:p]
		case 6, 7: // insert dictionary token
			tok := ev.PickOne(r, c.dict)
			b = append(b[:p], append([]byte(" "+tok+" "), b[p:]...)...)
		case 8: // splice from another program
			o := ev.PickOne(r, c.base)
			if len(o) > 0 {
				q := r.Intn(len(o))
				e := q + r.Intn(min(len(o)-q, 200)+1)
				b = append(b[:p], append([]byte(o[q:e]), b[p:]...)...)
			}
		}
	}
	if len(b) > maxInput {
		b = b[:maxInput]
	}
	return string(b)
}

type plan struct {
	c                           *corpus
	structured                  []string
	prefixStep                  int
	nPrefix, nMut, nRand, total int
	prefixIdx                   [][2]int // (file, length)
	seed                        int64
}

func newPlan(seed int64, thorough bool) *plan {
	p := &plan{c: loadCorpus(seed), structured: structured(thorough), seed: seed}
	p.prefixStep = 11
	p.nMut, p.nRand = 6000, 1500
	if thorough {
		p.prefixStep = 1
		p.nMut, p.nRand = 200000, 30000
	}
	for fi := 0; fi < p.c.nExamp; fi++ {
		for l := 0; l <= len(p.c.base[fi]); l += p.prefixStep {
			p.prefixIdx = append(p.prefixIdx, [2]int{fi, l})
		}
	}
	p.nPrefix = len(p.prefixIdx)
	p.total = len(p.structured) + p.nPrefix + len(p.c.base) + p.nMut + p.nRand
	return p
}

func (p *plan) input(i int) (family string, src string) {
	if i < len(p.structured) {
		return "structured", p.structured[i]
	}
	i -= len(p.structured)
	if i < p.nPrefix {
		pi := p.prefixIdx[i]
		return "prefix", p.c.base[pi[0]][:pi[1]]
	}
	i -= p.nPrefix
	if i < len(p.c.base) {
		return "corpus", p.c.base[i]
	}
	i -= len(p.c.base)
	r := ev.NewRNG(p.seed, "c03-case").Sub(i)
	if i < p.nMut {
		return "mutation", mutate(r, p.c, ev.PickOne(r, p.c.base))
	}
	var b strings.Builder
	n := r.Range(1, 400)
	if r.Bool() {
		for k := 0; k < n; k++ {
			b.WriteString(ev.PickOne(r, p.c.dict))
			if r.Intn(3) > 0 {
				b.WriteByte(' ')
			}
		}
		return "token-soup", b.String()
	}
	for k := 0; k < n; k++ {
		b.WriteByte(byte(r.Intn(256)))
	}
	return "random-bytes", b.String()
}

// ---------------------------------------------------------------------
// oracle

func dump(o *code.Object) string {
	var b strings.Builder
	for _, in := range o.Program {
		fmt.Fprintf(&b, "%d %T %v %d\n", in.Opcode, in.Operand, in.Operand, in.SourceLine)
	}
	for _, s := range o.Strings {
		fmt.Fprintf(&b, "S %q\n", s)
	}
	for _, r := range o.Regexps {
		fmt.Fprintf(&b, "R %q\n", r.String())
	}
	for _, m := range o.Metrics {
		fmt.Fprintf(&b, "M %q %q %v %v %v %q %q %v %d", m.Name, m.Program, m.Kind, m.Type, m.Hidden, m.Keys, m.Source, m.Buckets, m.Limit)
		for _, lv := range m.LabelValues {
			fmt.Fprintf(&b, " [%q %s %s]", lv.Labels, lv.Value.ValueString(), lv.Value.TimeString())
		}
		b.WriteString("\n")
	}
	return b.String()
}

type outcome struct {
	Accepted bool
	Hash     string
	Viol     string
	Dur      time.Duration
	NErr     int
}

func compileOnce(src string) (o *code.Object, err error, panicked any) {
	defer func() {
		if r := recover(); r != nil {
			panicked = r
		}
	}()
	c, cerr := compiler.New()
	if cerr != nil {
		return nil, cerr, nil
	}
	o, err = c.Compile("prog.mtail", strings.NewReader(src))
	return
}

func judge(src string) outcome {
	t0 := time.Now()
	o1, e1, p1 := compileOnce(src)
	d := time.Since(t0)
	out := outcome{Dur: d}
	if p1 != nil {
		out.Viol = fmt.Sprintf("panic: %v\n%s", p1, debug.Stack())
		return out
	}
	switch {
	case o1 != nil && e1 != nil:
		out.Viol = "Compile returned both an object and an error: " + e1.Error()
		return out
	case o1 == nil && e1 == nil:
		out.Viol = "Compile returned neither an object nor an error"
		return out
	case e1 != nil && strings.TrimSpace(e1.Error()) == "":
		out.Viol = "Compile returned an empty error list"
		return out
	}
	o2, e2, p2 := compileOnce(src)
	if p2 != nil {
		out.Viol = fmt.Sprintf("panic on second compile: %v", p2)
		return out
	}
	// The statement promises the same bytecode and data; the order in which
	// several compile errors are listed is not part of it (and does vary), so
	// for rejected inputs only the accept/reject outcome is compared.
	var d1, d2 string
	if o1 != nil {
		out.Accepted = true
		d1 = dump(o1)
	} else {
		d1 = "rejected"
		out.NErr = strings.Count(e1.Error(), "\n") + 1
	}
	if o2 != nil {
		d2 = dump(o2)
	} else if e2 != nil {
		d2 = "rejected"
	}
	if d1 != d2 {
		out.Viol = "two compiles of the same source differ:\n--- first\n" + clip(d1) + "\n--- second\n" + clip(d2)
		return out
	}
	h := sha256.Sum256([]byte(d1))
	out.Hash = hex.EncodeToString(h[:8])
	return out
}

func clip(s string) string {
	if len(s) > 3000 {
		return s[:3000] + "…"
	}
	return s
}

const slowBudget = 20 * time.Second
const hangBudget = 120 * time.Second

type rec struct {
	Kind   string `json:"kind"`
	I      int    `json:"i"`
	Family string `json:"family,omitempty"`
	Hash   string `json:"hash,omitempty"`
	What   string `json:"what,omitempty"`
	Ms     int64  `json:"ms,omitempty"`
	N      int    `json:"n,omitempty"`
	Acc    int    `json:"acc,omitempty"`
	Rej    int    `json:"rej,omitempty"`
	Fam    map[string]int `json:"fam,omitempty"`
	MaxMs  int64  `json:"max_ms,omitempty"`
}

func child(c *ev.Child) {
	debug.SetMaxStack(512 << 20)
	p := newPlan(ev.Seed(), ev.Thorough())
	// memory watchdog: report and exit rather than let the machine swap
	cur := -1
	go func() {
		var ms runtime.MemStats
		for {
			time.Sleep(200 * time.Millisecond)
			runtime.ReadMemStats(&ms)
			if ms.Sys > 6<<30 {
				c.Report(rec{Kind: "oom", I: cur, What: fmt.Sprintf("process memory %d MiB while compiling", ms.Sys>>20)})
				os.Exit(4)
			}
		}
	}()
	var curStart atomic.Int64
	go func() {
		for {
			time.Sleep(time.Second)
			if st := curStart.Load(); st != 0 && time.Since(time.Unix(0, st)) > hangBudget {
				c.Report(rec{Kind: "hangcand", I: cur})
				buf := make([]byte, 1<<20)
				os.Stderr.Write(buf[:runtime.Stack(buf, true)])
				os.Exit(5)
			}
		}
	}()
	sum := rec{Kind: "summary", Fam: map[string]int{}}
	for i := c.Start; i < p.total; i++ {
		if !c.Mine(i) {
			continue
		}
		fam, src := p.input(i)
		cur = i
		c.Mark(i, []byte(src))
		curStart.Store(time.Now().UnixNano())
		o := judge(src)
		curStart.Store(0)
		sum.N++
		sum.Fam[fam]++
		if o.Accepted {
			sum.Acc++
		} else {
			sum.Rej++
		}
		if ms := o.Dur.Milliseconds(); ms > sum.MaxMs {
			sum.MaxMs = ms
		}
		if o.Viol != "" {
			c.Report(rec{Kind: "violation", I: i, Family: fam, What: o.Viol})
		}
		if o.Dur > slowBudget {
			c.Report(rec{Kind: "slow", I: i, Family: fam, Ms: o.Dur.Milliseconds()})
		}
		if i%40 == 0 && o.Hash != "" {
			c.Report(rec{Kind: "hash", I: i, Hash: o.Hash})
		}
	}
	c.Report(sum)
	c.Done()
}

func quoteClip(s string) string {
	if len(s) > 600 {
		return fmt.Sprintf("%q…(%d bytes)…%q", s[:300], len(s), s[len(s)-200:])
	}
	return fmt.Sprintf("%q", s)
}

// runAlone compiles input i in a fresh process; reports whether it finished
// within the budget.
func runAlone(i int, budget time.Duration) (finished bool, took time.Duration) {
	finished, took, _ = runAloneCode(i, budget)
	return
}

// runAloneCode also returns the child's exit code (4: memory watchdog, other
// non-zero: it died).
func runAloneCode(i int, budget time.Duration) (finished bool, took time.Duration, code int) {
	cmd := exec.Command(os.Args[0], "-test.run", "^TestC03$", "-test.timeout", "0")
	cmd.Env = append(os.Environ(), fmt.Sprintf("VERIF_C03_SINGLE=%d", i))
	t0 := time.Now()
	if err := cmd.Start(); err != nil {
		return false, 0, -1
	}
	done := make(chan error, 1)
	go func() { done <- cmd.Wait() }()
	select {
	case err := <-done:
		if ee, ok := err.(*exec.ExitError); ok {
			code = ee.ExitCode()
		}
		return true, time.Since(t0), code
	case <-time.After(budget):
		_ = cmd.Process.Kill()
		<-done
		return false, time.Since(t0), -1
	}
}

func TestC03(t *testing.T) {
	if s := os.Getenv("VERIF_C03_SINGLE"); s != "" {
		i, _ := strconv.Atoi(s)
		ev.QuietGlog()
		go func() { // the same memory watchdog as in the batch children
			var ms runtime.MemStats
			for {
				time.Sleep(200 * time.Millisecond)
				runtime.ReadMemStats(&ms)
				if ms.Sys > 6<<30 {
					os.Exit(4)
				}
			}
		}()
		_, src := newPlan(ev.Seed(), ev.Thorough()).input(i)
		compileOnce(src)
		return
	}
	if c := ev.ChildFromEnv(); c != nil {
		child(c)
		return
	}
	r := ev.Start(t, "C03", "exploration")
	defer r.Finish()
	p := newPlan(ev.Seed(), ev.Thorough())
	r.Rule("inputs (<=64KiB): structured hostile families (nesting depths 1..30000 of ( ~ { [ +/re/ decorators else len( binary chains; regex lengths around the 1024 limit; unterminated strings/regexes; invalid UTF-8/NUL/U+2424; out-of-range literals; huge by/limit/buckets), every (quick: every 11th) prefix of every example program, the repository's own test-table programs harvested from *_test.go, generator output, byte/token/splice mutations of all of those, token soups and random bytes. Each is compiled twice in a child process; outcome predicate + determinism of the dumped object; a sample of hashes is re-computed in the parent process. Non-trivial: input is not one of the unmodified corpus programs; distinct by input index (inputs are a deterministic function of seed and index).")
	r.Assume("bounded time: a single compile over 20s is re-run alone with a 10x budget; only a reproducible overrun is a violation", "memory above 6GiB in a child is treated like a crash candidate")
	nsh := runtime.GOMAXPROCS(0)
	res := ev.RunShards("TestC03", nsh, p.total, time.Duration(ev.Pick(600, 3000))*time.Second)
	hashes := map[int]string{}
	var sum rec
	sum.Fam = map[string]int{}
	done := 0
	var slow []rec
	hangcand := map[int]bool{}
	for _, raw := range res.Records {
		var x rec
		if json.Unmarshal(raw, &x) != nil {
			continue
		}
		switch x.Kind {
		case "violation":
			_, src := p.input(x.I)
			r.Violation(classify(x.What), map[string]any{"index": x.I, "family": x.Family, "input_quoted": quoteClip(src), "what": x.What})
		case "slow":
			slow = append(slow, x)
		case "hangcand":
			hangcand[x.I] = true
		case "oom":
			_, src := p.input(x.I)
			r.Violation("memory-blowup", map[string]any{"index": x.I, "input_quoted": quoteClip(src), "what": x.What})
		case "hash":
			hashes[x.I] = x.Hash
		case "summary":
			sum.N += x.N
			sum.Acc += x.Acc
			sum.Rej += x.Rej
			for k, v := range x.Fam {
				sum.Fam[k] += v
			}
			if x.MaxMs > sum.MaxMs {
				sum.MaxMs = x.MaxMs
			}
		case "done":
			done++
		}
	}
	confirmedHangs := 0
	for _, cr := range res.Crashes {
		if cr.Index < 0 {
			r.Inconclusive("child died before its first case: " + cr.Log)
			continue
		}
		logb, _ := os.ReadFile(cr.Log)
		tail := string(logb)
		if len(tail) > 4000 {
			tail = tail[:2000] + "\n…\n" + tail[len(tail)-2000:]
		}
		if strings.Contains(tail, `"kind":"oom"`) {
			continue
		}
		cls := "process-died"
		if cr.Hang || hangcand[cr.Index] {
			if confirmedHangs >= 1 {
				// one confirmed unbounded compile decides the run; the other
				// candidates are listed, not each re-run for minutes
				r.Count("hang_candidates_not_rerun", 1)
				continue
			}
			// bounded time: confirm alone, in a fresh process, with a 5x budget
			fin, took, code := runAloneCode(cr.Index, 5*hangBudget)
			if fin && code != 0 {
				cls = "process-died"
				if code == 4 {
					cls = "memory-blowup"
				}
				r.Violation(cls, map[string]any{"index": cr.Index, "input_quoted": quoteClip(string(cr.Input)), "what": fmt.Sprintf("re-run alone: the compile ended with exit code %d (4 = more than 6 GiB of memory)", code)})
				continue
			}
			if fin {
				r.Count("hang_candidates_not_reproduced", 1)
				r.Set(fmt.Sprintf("slow_input_%d", cr.Index), map[string]any{"alone_ms": took.Milliseconds(), "input_quoted": quoteClip(string(cr.Input))})
				continue
			}
			cls = "unbounded-time"
			confirmedHangs++
		}
		r.Violation(cls, map[string]any{"index": cr.Index, "input_quoted": quoteClip(string(cr.Input)), "child_output": tail})
	}
	for _, s := range slow {
		_, src := p.input(s.I)
		t0 := time.Now()
		finished := make(chan struct{})
		go func() { compileOnce(src); close(finished) }()
		select {
		case <-finished:
			r.Count("slow_inputs_not_reproduced", 1)
			r.Set(fmt.Sprintf("slow_input_%d", s.I), map[string]any{"first_ms": s.Ms, "alone_ms": time.Since(t0).Milliseconds(), "input_quoted": quoteClip(src)})
		case <-time.After(10 * slowBudget):
			r.Violation("unbounded-time", map[string]any{"index": s.I, "input_quoted": quoteClip(src), "what": "compile did not finish within 200s when re-run alone"})
		}
	}
	// cross-process determinism on the sampled indices
	var idx []int
	for i := range hashes {
		idx = append(idx, i)
	}
	sort.Ints(idx)
	for _, i := range idx {
		_, src := p.input(i)
		o := judge(src)
		r.Count("cross_process_hashes_compared", 1)
		if o.Hash != hashes[i] {
			r.Violation("nondeterministic-across-processes", map[string]any{"index": i, "input_quoted": quoteClip(src), "child_hash": hashes[i], "parent_hash": o.Hash})
		}
	}
	r.Eval(sum.N)
	for k, v := range sum.Fam {
		r.Count("family_"+k, v)
		if k != "corpus" {
			for j := 0; j < v; j++ {
				_ = j
			}
		}
	}
	// distinct non-trivial: inputs other than unmodified corpus programs (distinct by index)
	nt := sum.N - sum.Fam["corpus"]
	for i := 0; i < nt; i++ {
		r.Distinct(strconv.Itoa(i))
	}
	r.Count("accepted", sum.Acc)
	r.Count("rejected", sum.Rej)
	r.Set("max_compile_ms", sum.MaxMs)
	r.Set("children_completed", done)
	_, s1 := p.input(len(p.structured) + p.nPrefix + len(p.c.base) + 5)
	r.Sample(map[string]any{"family": "mutation", "input_quoted": quoteClip(s1)})
	r.Sample(map[string]any{"family": "structured", "input_quoted": quoteClip(p.structured[40])})
	if sum.N != p.total-len(res.Crashes) && len(res.Crashes) == 0 {
		r.Inconclusive(fmt.Sprintf("children judged %d of %d inputs", sum.N, p.total))
	}
	r.Floor("accepted", 50)
	r.Floor("rejected", 50)
}

func classify(w string) string {
	switch {
	case strings.HasPrefix(w, "panic"):
		return "panic"
	case strings.Contains(w, "both"):
		return "object-and-error"
	case strings.Contains(w, "neither"):
		return "neither"
	case strings.Contains(w, "empty error"):
		return "empty-error"
	case strings.Contains(w, "differ"):
		return "nondeterministic"
	}
	return "other"
}
