package probe
import ("testing";"fmt";"github.com/google/mtail/verif/mt")
func TestP(t *testing.T) {
	for _, src := range []string{"counter c\n/(?:x\\/y)?a=(\\d+)/ {\n c += $1\n}\n", "text t\n/a/ {\n t = \"a\\\"b\" + \"c\\\\d\" + \"tab\\there\"\n}\n"} {
	p, err := mt.Load("x", src, mt.VMOpts{})
	fmt.Println(err)
	if p != nil { fmt.Println(p.Line("f","x/ya=3"), p.VM.RuntimeErrorString(), mt.Dump(p.Obj.Metrics,false)) ; fmt.Printf("%q %v\n", p.Obj.Strings, p.Obj.Regexps)}
	}
}
