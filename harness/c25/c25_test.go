//go:build verif

// C25 — self-monitoring counters are exact.
// Monitor: at the quiescent end of an end-to-end run of the real mtail.Server
// (harness-controlled wakers, SIGHUP reloads) every self-monitoring counter is
// reconciled with ground truth: lines the harness wrote (cross-checked with
// the fan-out hook), lines each program processed (VM line hook), runtime
// errors predicted by the reference interpreter, and a model of load / unload /
// load-error events; the same numbers are read again from a Prometheus scrape.
package c25

import (
	"context"
	"expvar"
	"fmt"
	"io"
	"net"
	"net/http"
	"os"
	"os/signal"
	"path/filepath"
	"runtime"
	"strconv"
	"strings"
	"sync"
	"sync/atomic"
	"syscall"
	"testing"
	"time"

	"github.com/google/mtail/internal/logline"
	"github.com/google/mtail/internal/metrics"
	"github.com/google/mtail/internal/mtail"
	mrt "github.com/google/mtail/internal/runtime"
	"github.com/google/mtail/internal/runtime/vm"
	"github.com/google/mtail/verif/ev"
	"github.com/google/mtail/verif/fsdrv"
	"github.com/google/mtail/verif/gen"
	"github.com/google/mtail/verif/mt"
	"github.com/google/mtail/verif/refsem"
	"github.com/prometheus/common/expfmt"
)

const watchdog = 60 * time.Second

var (
	mu        sync.Mutex
	prefix    string
	procBy    map[string][][2]string // program -> (file, line)
	fanByFile = map[string]int64{}   // file name carried by a fanned-out line -> count
	fanouts   atomic.Int64
	loadAlls  atomic.Int64
)

func expInt(name string) int64 {
	n, _ := strconv.ParseInt(expvar.Get(name).String(), 10, 64)
	return n
}

func expMap(name, key string) int64 {
	v := expvar.Get(name).(*expvar.Map).Get(key)
	if v == nil {
		return 0
	}
	n, _ := strconv.ParseInt(v.String(), 10, 64)
	return n
}

func dump() string {
	buf := make([]byte, 2<<20)
	return string(buf[:runtime.Stack(buf, true)])
}

type progModel struct {
	name     string
	src      string
	valid    bool // compiles and registers
	present  bool
	running  bool
	runHash  string
	fileHash string
	loads    int64
	unloads  int64
	loadErrs int64
	g        *gen.Program
}

func TestC25(t *testing.T) {
	r := ev.Start(t, "C25", "exploration")
	defer r.Finish()
	// SIGHUP is how reloads are requested; keep a handler installed for the
	// whole process so that one arriving between two servers' own handlers
	// (their signal.Notify / signal.Stop) does not take the default action.
	hup := make(chan os.Signal, 1)
	signal.Notify(hup, syscall.SIGHUP)
	defer signal.Stop(hup)
	r.Rule("end-to-end runs of the real mtail.Server (not one-shot) with a program directory holding two fixed programs sharing a metric name with different kinds (the later one is refused at registration), a syntactically broken program and 1-2 generated programs (some raising runtime errors), and a history of log appends (one line in three repeats the file's previous line verbatim) to two files incl. a file discovered by glob and a rotation, program edits / removals / re-adds each followed by SIGHUP. At the quiescent end: lines_total == lines written == fan-out hook count; log_lines_total[path] == lines written to path; prog_runtime_errors_total[p] == errors the reference interpreter predicts for the lines p processed; prog_loads / unloads / load_errors_total == model events (a refused registration and a compile failure count on every scan); log_count == live streams; the mtail_-prefixed series of a /metrics scrape equal the expvars. Plus shutdown runs: a burst of lines, slow programs, wake-up and immediate cancellation; after Run returned lines_total == fan-out count == sum of log_lines_total. Non-trivial: run with >=1 reload step and >=1 runtime error; distinct by run index.")
	r.Assume("steps are separated by logical barriers so every written line is delivered (C16 establishes that)", "program edits are comment-only so a program's semantics do not change within a run")
	lh := func(id uint64, name string, l *logline.LogLine, phase int) {
		if phase != 0 {
			return
		}
		mu.Lock()
		if strings.HasPrefix(name, prefix) {
			procBy[name] = append(procBy[name], [2]string{l.Filename, l.Line})
		}
		mu.Unlock()
		if d := shutdownStall.Load(); d > 0 {
			time.Sleep(time.Duration(d))
		}
	}
	fh := func(l *logline.LogLine) {
		fanouts.Add(1)
		mu.Lock()
		fanByFile[l.Filename]++
		mu.Unlock()
	}
	lah := func() { loadAlls.Add(1) }
	vm.VerifLineHook.Store(&lh)
	mrt.VerifFanoutHook.Store(&fh)
	mrt.VerifLoadAllHook.Store(&lah)
	defer func() {
		vm.VerifLineHook.Store(nil)
		mrt.VerifFanoutHook.Store(nil)
		mrt.VerifLoadAllHook.Store(nil)
	}()
	base, _ := os.MkdirTemp(ev.Scratch(), "c25")
	defer os.RemoveAll(base)
	runs := ev.Pick(40, 1500)
	rng := ev.NewRNG(ev.Seed(), "c25")
	for run := 0; run < runs; run++ {
		g := rng.Sub(run)
		what, reloads, rtErrs := oneRun(t, r, g, base, run)
		r.Eval(1)
		if what != "" {
			if strings.HasPrefix(what, "INCONCLUSIVE") {
				r.Inconclusive(what)
				break
			}
			r.Violation(cls(what), map[string]any{"run": run, "what": what})
			if r.Violations() > 6 {
				break
			}
			continue
		}
		if reloads > 0 && rtErrs > 0 {
			r.Distinct(fmt.Sprint(run))
		}
	}
	for run := 0; run < ev.Pick(25, 600) && r.Violations() == 0; run++ {
		what := shutdownRun(t, rng.Sub(100000+run), base, run)
		r.Eval(1)
		if strings.HasPrefix(what, "INCONCLUSIVE") {
			r.Inconclusive(what)
			break
		}
		if what != "" {
			r.Violation(cls(what), map[string]any{"shutdown_run": run, "what": what})
			continue
		}
		r.Count("shutdown_runs_reconciled", 1)
	}
}

// shutdownRun: the counters must also agree when the server is stopped in the
// middle of delivery. A burst of lines is appended, the programs are made slow
// (stall at the VM line hook, so the loader stops taking lines and the tailer's
// forwarders sit in their send), the streams are woken and the server is
// cancelled at once. However many lines make it, after Run has returned the
// loader's lines_total, the fan-out count and the streams' log_lines_total
// describe the same lines.
func shutdownRun(t *testing.T, g *ev.RNG, base string, run int) string {
	dir := filepath.Join(base, fmt.Sprintf("s%d", run))
	progDir, logDir := filepath.Join(dir, "progs"), filepath.Join(dir, "logs")
	_ = os.MkdirAll(progDir, 0o755)
	_ = os.MkdirAll(logDir, 0o755)
	defer os.RemoveAll(dir)
	pfx := fmt.Sprintf("s%d_", run)
	mu.Lock()
	prefix, procBy = pfx, map[string][][2]string{}
	mu.Unlock()
	_ = os.WriteFile(filepath.Join(progDir, pfx+"p.mtail"), []byte(fmt.Sprintf("counter sd_%d\n/./ {\n  sd_%d++\n}\n", run, run)), 0o644)
	logs := []string{filepath.Join(logDir, "a.log"), filepath.Join(logDir, "b.log")}
	for _, l := range logs {
		_ = os.WriteFile(l, nil, 0o644)
	}
	fan0, lines0 := fanouts.Load(), expInt("lines_total")
	log0 := map[string]int64{}
	for _, l := range logs {
		log0[l] = expMap("log_lines_total", l)
	}
	streamW, patternW := fsdrv.NewStepWaker(), fsdrv.NewStepWaker()
	ctx, cancel := context.WithCancel(context.Background())
	defer cancel()
	m, err := mtail.New(ctx, metrics.NewStore(), mtail.ProgramPath(progDir), mtail.LogPathPatterns(filepath.Join(logDir, "*.log")),
		mtail.LogstreamPollWaker(streamW), mtail.LogPatternPollWaker(patternW), mtail.BindUnixSocket(filepath.Join(dir, "http.sock")))
	if err != nil {
		return "server-start: " + err.Error()
	}
	runDone := make(chan error, 1)
	go func() { runDone <- m.Run() }()
	if !fsdrv.Await(func() bool { return streamW.Waiting() >= 2 && patternW.Waiting() >= 1 }, watchdog) {
		cancel()
		return "INCONCLUSIVE startup barrier (shutdown run)\n" + dump()
	}
	appendN := func(path string, n int) {
		f, _ := os.OpenFile(path, os.O_APPEND|os.O_WRONLY, 0o644)
		for i := 0; i < n; i++ {
			fmt.Fprintf(f, "line %d of %s\n", i, filepath.Base(path))
		}
		f.Close()
	}
	// a delivered prefix, behind a barrier
	pre := g.Range(0, 5)
	appendN(logs[0], pre)
	streamW.Broadcast()
	if !fsdrv.Await(func() bool { return streamW.Waiting() >= 2 }, watchdog) {
		cancel()
		return "INCONCLUSIVE barrier (shutdown run)\n" + dump()
	}
	// the burst, slow programs, wake-up and immediate cancellation
	for _, l := range logs {
		appendN(l, g.Range(20, 120))
	}
	shutdownStall.Store(int64(g.Range(50, 400)) * int64(time.Microsecond))
	streamW.Broadcast()
	if g.Bool() {
		time.Sleep(time.Duration(g.Intn(2000)) * time.Microsecond)
	}
	cancel()
	streamW.Broadcast()
	patternW.Broadcast()
	select {
	case <-runDone:
	case <-time.After(watchdog):
		shutdownStall.Store(0)
		return "INCONCLUSIVE server did not shut down (shutdown run)\n" + dump()
	}
	shutdownStall.Store(0)
	var fromStreams int64
	per := map[string]int64{}
	for _, l := range logs {
		per[filepath.Base(l)] = expMap("log_lines_total", l) - log0[l]
		fromStreams += per[filepath.Base(l)]
	}
	got, fan := expInt("lines_total")-lines0, fanouts.Load()-fan0
	if got != fromStreams || fan != fromStreams {
		return fmt.Sprintf("lines_total: after a shutdown in mid-delivery the loader counted %d lines (fan-out hook %d) but the log streams counted %d delivered lines (%v)", got, fan, fromStreams, per)
	}
	return ""
}

var shutdownStall atomic.Int64

func cls(w string) string {
	f := strings.Fields(w)
	if len(f) > 0 {
		c := f[0]
		if i := strings.IndexAny(c, "[{="); i > 0 {
			c = c[:i]
		}
		return strings.Trim(c, ":")
	}
	return "other"
}

func oneRun(t *testing.T, r *ev.Run, g *ev.RNG, base string, run int) (string, int, int64) {
	dir := filepath.Join(base, fmt.Sprintf("r%d", run))
	progDir := filepath.Join(dir, "progs")
	logDir := filepath.Join(dir, "logs")
	_ = os.MkdirAll(progDir, 0o755)
	_ = os.MkdirAll(logDir, 0o755)
	defer os.RemoveAll(dir)
	pfx := fmt.Sprintf("r%d_", run)
	mu.Lock()
	prefix, procBy = pfx, map[string][][2]string{}
	mu.Unlock()
	fan0, lines0, logCount0 := fanouts.Load(), expInt("lines_total"), expInt("log_count")
	shared := fmt.Sprintf("shared_%d", run)
	progs := []*progModel{
		{name: pfx + "a_fixed.mtail", src: fmt.Sprintf("counter %s\ncounter %s_2\n/./ {\n  %s++\n  %s_2++\n}\n", shared, shared, shared, shared), valid: true},
		// refused at registration: clashes with a_fixed on one name (even runs) or on two names (odd runs) — one refused load is one load error either way
		{name: pfx + "z_clash.mtail", src: fmt.Sprintf("counter ok_%d\ngauge %s\n/./ {\n  %s = 1\n  ok_%d++\n}\n", run, shared, shared, run) + map[bool]string{true: fmt.Sprintf("gauge %s_2\n/./ {\n  %s_2 = 2\n}\n", shared, shared), false: ""}[run%2 == 1], valid: false},
		{name: pfx + "m_broken.mtail", src: "counter c\n/./ {\n  c++\n", valid: false},
	}
	for i := 0; i < g.Range(1, 2); i++ {
		for try := 0; try < 20; try++ {
			gp := gen.Generate(g.Sub(1000+i*50+try), gen.Opts{ErrHeavy: true, MetricPrefix: fmt.Sprintf("r%dg%d_", run, i), NoHist: true})
			src := (&gen.Renderer{}).Render(gp)
			name := fmt.Sprintf("%sg%d.mtail", pfx, i)
			if _, err := mt.Compile(name, src); err == nil {
				progs = append(progs, &progModel{name: name, src: src, valid: true, g: gp})
				break
			}
		}
	}
	write := func(p *progModel, nonce int) {
		s := p.src
		if nonce > 0 {
			s += fmt.Sprintf("# edit %d\n", nonce)
		}
		_ = os.WriteFile(filepath.Join(progDir, p.name), []byte(s), 0o644)
		p.present = true
		p.runHash0(s)
	}
	for _, p := range progs {
		write(p, 0)
	}
	scan := func() {
		for _, p := range progs {
			switch {
			case !p.present:
				if p.running {
					p.running = false
					p.unloads++
				}
			case p.running && p.runHash == p.fileHash:
			case !p.valid:
				p.loadErrs++
			default:
				p.running, p.runHash = true, p.fileHash
				p.loads++
			}
		}
	}
	logA := filepath.Join(logDir, "a.log")
	logB := filepath.Join(logDir, "b.log")
	_ = os.WriteFile(logA, []byte("before tailing\n"), 0o644)
	// c.log is a symbolic link to a file elsewhere (a "current" link)
	logC := filepath.Join(logDir, "c.log")
	_ = os.MkdirAll(filepath.Join(dir, "real"), 0o755)
	_ = os.WriteFile(filepath.Join(dir, "real", "c.2026-09-22"), []byte("before tailing\n"), 0o644)
	_ = os.Symlink(filepath.Join(dir, "real", "c.2026-09-22"), logC)
	written := map[string]int64{}
	streamW, patternW := fsdrv.NewStepWaker(), fsdrv.NewStepWaker()
	sock := filepath.Join(dir, "http.sock")
	store := metrics.NewStore()
	ctx, cancel := context.WithCancel(context.Background())
	defer cancel()
	sopts := []mtail.Option{mtail.ProgramPath(progDir), mtail.LogPathPatterns(filepath.Join(logDir, "*.log")),
		mtail.LogstreamPollWaker(streamW), mtail.LogPatternPollWaker(patternW), mtail.BindUnixSocket(sock)}
	// what the binary's flags turn on by default or commonly
	if run%2 == 1 {
		sopts = append(sopts, mtail.LogRuntimeErrors)
	}
	if run%3 == 1 {
		sopts = append(sopts, mtail.OmitMetricSource, mtail.EmitMetricTimestamp)
	}
	if run%4 == 3 {
		sopts = append(sopts, mtail.SyslogUseCurrentYear, mtail.OmitProgLabel)
	}
	m, err := mtail.New(ctx, store, sopts...)
	if err != nil {
		return "server-start: " + err.Error(), 0, 0
	}
	scan() // the initial LoadAllPrograms
	runDone := make(chan error, 1)
	go func() { runDone <- m.Run() }()
	live := 2
	barrier := func() string {
		streamW.Broadcast()
		if !fsdrv.Await(func() bool { return streamW.Waiting() >= live }, watchdog) {
			return fmt.Sprintf("INCONCLUSIVE barrier: %d streams expected at the waker, %d arrived\n%s", live, streamW.Waiting(), dump())
		}
		return ""
	}
	if !fsdrv.Await(func() bool { return streamW.Waiting() >= live && patternW.Waiting() >= 1 }, watchdog) {
		return "INCONCLUSIVE startup barrier\n" + dump(), 0, 0
	}
	seq := 0
	lastLine := map[string]string{}
	appendLines := func(path string, n int) string {
		f, err := os.OpenFile(path, os.O_APPEND|os.O_WRONLY|os.O_CREATE, 0o644)
		if err != nil {
			return "INCONCLUSIVE append: " + err.Error()
		}
		for i := 0; i < n; i++ {
			seq++
			l := gen.GenLine(g)
			if l == "" {
				l = "x"
			}
			// real logs repeat themselves: one line in three is the line last
			// written to this file again (same text, same program state path)
			if prev := lastLine[path]; prev != "" && g.Intn(3) == 0 {
				l = prev
			}
			lastLine[path] = l
			fmt.Fprintf(f, "%s\n", l)
			written[path]++
		}
		f.Close()
		return barrier()
	}
	handlerUp := false
	sighup := func() string {
		if !handlerUp {
			// the runtime installs its SIGHUP handler in a goroutine started by
			// New; wait until that goroutine sits in its select, or the first
			// signal of a run could arrive before anybody listens
			if !fsdrv.Await(func() bool {
				buf := make([]byte, 1<<20)
				buf = buf[:runtime.Stack(buf, true)]
				for _, g := range strings.Split(string(buf), "\n\n") {
					if strings.Contains(g, "[select") && strings.Contains(g, "mtail/internal/runtime.New.func") {
						return true
					}
				}
				return false
			}, watchdog) {
				return "INCONCLUSIVE the runtime's SIGHUP handler goroutine was not seen waiting"
			}
			handlerUp = true
		}
		before := loadAlls.Load()
		_ = syscall.Kill(syscall.Getpid(), syscall.SIGHUP)
		if !fsdrv.Await(func() bool { return loadAlls.Load() > before }, watchdog) {
			return "INCONCLUSIVE the SIGHUP-triggered program scan did not finish"
		}
		scan()
		return ""
	}
	reloads := 0
	nonce := 0
	steps := g.Range(5, 12)
	bExists := false
	for k := 0; k < steps; k++ {
		var s string
		switch g.Intn(8) {
		case 0, 1, 2:
			if g.Intn(3) == 0 {
				s = appendLines(logC, g.Range(1, 4))
			} else {
				s = appendLines(logA, g.Range(1, 6))
			}
		case 3:
			if !bExists {
				_ = os.WriteFile(logB, nil, 0o644)
				bExists = true
				patternW.Broadcast()
				live++
				if !fsdrv.Await(func() bool { return patternW.Waiting() >= 1 && streamW.Waiting() >= live }, watchdog) {
					s = "INCONCLUSIVE new log not picked up\n" + dump()
				}
			} else {
				s = appendLines(logB, g.Range(1, 4))
			}
		case 4: // rotate a.log
			_ = os.Rename(logA, logA+".1")
			_ = os.WriteFile(logA, nil, 0o644)
			s = barrier()
		case 5: // comment-only edit of a program + reload
			p := progs[g.Intn(len(progs))]
			if p.present {
				nonce++
				write(p, nonce)
			}
			s = sighup()
			reloads++
		case 6: // remove / re-add a program + reload
			p := progs[g.Intn(len(progs))]
			if p.present {
				_ = os.Remove(filepath.Join(progDir, p.name))
				p.present = false
			} else {
				nonce++
				write(p, nonce)
			}
			s = sighup()
			reloads++
		case 7: // plain rescan
			s = sighup()
			reloads++
		}
		if s != "" {
			cancel()
			streamW.Broadcast()
			patternW.Broadcast()
			return s, reloads, 0
		}
	}
	// scrape while running and quiescent: first make sure all fanned-out lines were processed
	var totalWritten int64
	for _, n := range written {
		totalWritten += n
	}
	fsdrv.Await(func() bool { return fanouts.Load()-fan0 >= totalWritten }, 5*time.Second)
	scrape := ""
	hc := http.Client{Transport: &http.Transport{DialContext: func(ctx context.Context, _, _ string) (net.Conn, error) { return net.Dial("unix", sock) }}, Timeout: 10 * time.Second}
	if resp, err := hc.Get("http://unix/metrics"); err == nil {
		b, _ := io.ReadAll(resp.Body)
		resp.Body.Close()
		scrape = string(b)
	} else {
		return "INCONCLUSIVE scrape: " + err.Error(), reloads, 0
	}
	liveAtEnd := expInt("log_count") - logCount0
	cancel()
	streamW.Broadcast()
	patternW.Broadcast()
	select {
	case <-runDone:
	case <-time.After(watchdog):
		return "INCONCLUSIVE server did not shut down\n" + dump(), reloads, 0
	}
	// ---- reconcile
	if d := expInt("lines_total") - lines0; d != totalWritten || fanouts.Load()-fan0 != totalWritten {
		return fmt.Sprintf("lines_total: counter moved by %d, fan-out hook saw %d, %d lines were written", d, fanouts.Load()-fan0, totalWritten), reloads, 0
	}
	for path, n := range written {
		if got := expMap("log_lines_total", path); got != n {
			return fmt.Sprintf("log_lines_total[%s]=%d, %d lines were written to it", filepath.Base(path), got, n), reloads, 0
		}
	}
	// each log's count is the lines delivered FROM it: the name a delivered
	// line carries must be the name its count is kept under
	mu.Lock()
	byFile := map[string]int64{}
	for f, n := range fanByFile {
		if strings.HasPrefix(f, dir) {
			byFile[f] = n
		}
	}
	mu.Unlock()
	for f, n := range byFile {
		if got := expMap("log_lines_total", f); got != n {
			return fmt.Sprintf("log_lines_total[%s]=%d, but %d delivered lines carry that file name", strings.TrimPrefix(f, dir), got, n), reloads, 0
		}
	}
	if int(liveAtEnd) != live {
		return fmt.Sprintf("log_count: %d streams reported, %d live", liveAtEnd, live), reloads, 0
	}
	var rtErrs int64
	mu.Lock()
	proc := map[string][][2]string{}
	for k, v := range procBy {
		proc[k] = append([][2]string{}, v...)
	}
	mu.Unlock()
	for _, p := range progs {
		if got := expMap("prog_loads_total", p.name); got != p.loads {
			return fmt.Sprintf("prog_loads_total[%s]=%d, model %d", p.name, got, p.loads), reloads, 0
		}
		if got := expMap("prog_unloads_total", p.name); got != p.unloads {
			return fmt.Sprintf("prog_unloads_total[%s]=%d, model %d", p.name, got, p.unloads), reloads, 0
		}
		if got := expMap("prog_load_errors_total", p.name); got != p.loadErrs {
			return fmt.Sprintf("prog_load_errors_total[%s]=%d, model %d (a refused registration and a compile failure count on every scan)", p.name, got, p.loadErrs), reloads, 0
		}
		want := int64(0)
		if p.g != nil {
			ref := refsem.New(p.g)
			for _, fl := range proc[p.name] {
				if ref.Line(fl[0], fl[1]) {
					want++
				}
				if ref.Unspecified != "" {
					want = -1
					break
				}
			}
		}
		got := expMap("prog_runtime_errors_total", p.name)
		if want >= 0 && got != want {
			return fmt.Sprintf("prog_runtime_errors_total[%s]=%d, the reference predicts %d errors for the %d lines it processed", p.name, got, want, len(proc[p.name])), reloads, 0
		}
		if want > 0 {
			rtErrs += want
		}
		r.Count("programs_reconciled", 1)
	}
	// Prometheus view of the same numbers
	var tp expfmt.TextParser
	fams, err := tp.TextToMetricFamilies(strings.NewReader(scrape))
	if err != nil {
		return "scrape: does not parse: " + err.Error(), reloads, 0
	}
	series := func(fam, label, value string) (float64, bool) {
		f := fams[fam]
		if f == nil {
			return 0, false
		}
		for _, mm := range f.Metric {
			for _, lp := range mm.Label {
				if lp.GetName() == label && lp.GetValue() == value {
					if mm.Untyped != nil {
						return mm.Untyped.GetValue(), true
					}
					if mm.Counter != nil {
						return mm.Counter.GetValue(), true
					}
					return mm.Gauge.GetValue(), true
				}
			}
		}
		return 0, false
	}
	for path, n := range written {
		if v, ok := series("mtail_log_lines_total", "logfile", path); !ok || int64(v) != n {
			return fmt.Sprintf("scrape: mtail_log_lines_total{logfile=%s}=%v (present=%v), expvar/model %d", filepath.Base(path), v, ok, n), reloads, 0
		}
	}
	for _, p := range progs {
		if p.loads > 0 {
			if v, ok := series("mtail_prog_loads_total", "prog", p.name); !ok || int64(v) != p.loads {
				return fmt.Sprintf("scrape: mtail_prog_loads_total{prog=%s}=%v (present=%v), model %d", p.name, v, ok, p.loads), reloads, 0
			}
		}
		if p.loadErrs > 0 {
			if v, ok := series("mtail_prog_load_errors_total", "prog", p.name); !ok || int64(v) != p.loadErrs {
				return fmt.Sprintf("scrape: mtail_prog_load_errors_total{prog=%s}=%v (present=%v), model %d", p.name, v, ok, p.loadErrs), reloads, 0
			}
		}
	}
	r.Count("lines_written", int(totalWritten))
	r.Count("reload_steps", reloads)
	r.Count("runtime_errors_reconciled", int(rtErrs))
	for _, p := range progs {
		for _, n := range []string{"prog_loads_total", "prog_unloads_total", "prog_load_errors_total", "prog_runtime_errors_total"} {
			expvar.Get(n).(*expvar.Map).Delete(p.name)
		}
		vm.LineProcessingDurations.DeleteLabelValues(p.name)
	}
	if run < 2 {
		r.Sample(map[string]any{"programs": len(progs), "lines_written": totalWritten, "reload_steps": reloads, "runtime_errors": rtErrs})
	}
	return "", reloads, rtErrs
}

func (p *progModel) runHash0(s string) { p.fileHash = s }
