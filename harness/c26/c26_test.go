//go:build verif

// C26 — program directory scanning loads exactly the eligible files.
// Monitor: 30-line model of the statement vs a real runtime.Runtime driven
// through filesystem histories; after every step + LoadAllPrograms a probe line
// is pushed and the set of (program, version) that processed it is read from
// the VM line hook and cross-checked with a per-version marker metric and the
// load / unload / load-error counters.
package c26

import (
	"fmt"
	"os"
	"path/filepath"
	"sort"
	"strconv"
	"strings"
	"sync"
	"testing"

	"github.com/google/mtail/internal/logline"
	"github.com/google/mtail/internal/metrics"
	"github.com/google/mtail/internal/metrics/datum"
	mrt "github.com/google/mtail/internal/runtime"
	"github.com/google/mtail/internal/runtime/vm"
	"github.com/google/mtail/verif/ev"
)

func source(version int, broken bool) string {
	s := fmt.Sprintf("counter probes\ngauge ver\n# v%d\n/^probe (\\d+)$/ {\n  probes++\n  ver = %d\n}\n", version, version)
	if broken {
		s += "this is not { valid\n"
	}
	return s
}

type step struct {
	Op   string `json:"op"`
	File string `json:"file"`
	To   string `json:"to,omitempty"`
}

type fileState struct {
	dir     bool
	version int
	broken  bool
	link    bool // the directory entry is a symlink to a file outside the directory
	away    bool // ... whose target is currently missing (the entry itself is untouched)
}

func isLink(name string) bool { return strings.HasSuffix(name, "L.mtail") }

// target is where the contents of a symlinked program live.
func (w *world) target(name string) string { return filepath.Join(w.dir+"_targets", name+".src") }

type world struct {
	dir     string
	files   map[string]*fileState // name within dir
	nextVer int
	// model of the running set
	running   map[string]int // program name -> version
	loads     map[string]int
	unloads   map[string]int
	loadErrs  map[string]int
	probesExp map[string]int
}

func eligible(name string) bool {
	return !strings.HasPrefix(name, ".") && filepath.Ext(name) == ".mtail"
}

func (w *world) write(name string, broken bool) {
	if f, ok := w.files[name]; ok && f.dir {
		return
	}
	w.nextVer++
	if isLink(name) {
		_ = os.MkdirAll(filepath.Dir(w.target(name)), 0o755)
		_ = os.Remove(w.target(name) + ".away")
		_ = os.WriteFile(w.target(name), []byte(source(w.nextVer, broken)), 0o644)
		if _, err := os.Lstat(filepath.Join(w.dir, name)); err != nil {
			_ = os.Symlink(w.target(name), filepath.Join(w.dir, name))
		}
		w.files[name] = &fileState{version: w.nextVer, broken: broken, link: true}
		return
	}
	w.files[name] = &fileState{version: w.nextVer, broken: broken}
	_ = os.WriteFile(filepath.Join(w.dir, name), []byte(source(w.nextVer, broken)), 0o644)
}

func (w *world) apply(s step) {
	p := filepath.Join(w.dir, s.File)
	f, exists := w.files[s.File]
	switch s.Op {
	case "add", "edit", "fix":
		w.write(s.File, false)
	case "break":
		w.write(s.File, true)
	case "target-away":
		// the program's file cannot be opened any more; its directory entry stays
		if exists && f.link && !f.away {
			_ = os.Rename(w.target(s.File), w.target(s.File)+".away")
			f.away = true
		}
	case "target-back":
		if exists && f.link && f.away {
			_ = os.Rename(w.target(s.File)+".away", w.target(s.File))
			f.away = false
		}
	case "touch-identical":
		if exists && !f.dir && !f.away {
			_ = os.WriteFile(p, []byte(source(f.version, f.broken)), 0o644)
		}
	case "remove":
		_ = os.RemoveAll(p)
		delete(w.files, s.File)
	case "rename":
		if _, taken := w.files[s.To]; exists && !taken {
			_ = os.Rename(p, filepath.Join(w.dir, s.To))
			w.files[s.To] = f
			delete(w.files, s.File)
		}
	case "replace-by-dir":
		_ = os.RemoveAll(p)
		_ = os.MkdirAll(p, 0o755)
		_ = os.WriteFile(filepath.Join(p, "inner.mtail"), []byte(source(9000, false)), 0o644)
		w.files[s.File] = &fileState{dir: true}
	case "rescan":
	}
}

// scan applies the statement's model of one LoadAllPrograms.
func (w *world) scan() {
	present := map[string]bool{}
	var names []string
	for n := range w.files {
		names = append(names, n)
	}
	sort.Strings(names)
	for _, n := range names {
		f := w.files[n]
		if f.dir || !eligible(n) {
			continue
		}
		present[n] = true
		if f.away {
			w.loadErrs[n]++ // cannot be read: an error, and whatever runs keeps running
			continue
		}
		if v, ok := w.running[n]; ok && v == f.version {
			continue // identical contents: nothing happens
		}
		if f.broken {
			w.loadErrs[n]++
			continue // previous version (if any) keeps running
		}
		w.running[n] = f.version
		w.loads[n]++
	}
	for n := range w.running {
		if !present[n] {
			delete(w.running, n)
			w.unloads[n]++
		}
	}
}

func expInt(m interface{ Get(string) interface{ String() string } }, k string) int { return 0 }

func counter(get func(string) string, k string) int {
	s := get(k)
	if s == "" {
		return 0
	}
	n, _ := strconv.Atoi(s)
	return n
}

type obs struct {
	mu   sync.Mutex
	seen map[string][]uint64 // probe text -> vm ids ... keyed below
	byVM map[uint64]string
}

var curObs struct {
	mu     sync.Mutex
	prefix string
	starts map[string]map[string][]uint64 // probe line -> program name -> vm ids
}

func alphabet(files []string) []step {
	var out []step
	for _, f := range files {
		for _, op := range []string{"add", "edit", "touch-identical", "break", "remove", "replace-by-dir"} {
			out = append(out, step{Op: op, File: f})
		}
	}
	out = append(out,
		step{Op: "rename", File: files[0], To: files[1]},
		step{Op: "rename", File: files[0], To: strings.TrimSuffix(files[0], ".mtail") + ".txt"},
		step{Op: "rename", File: files[0], To: "." + files[0]},
		step{Op: "rename", File: strings.TrimSuffix(files[0], ".mtail") + ".txt", To: files[0]},
		step{Op: "rescan"})
	return out
}

// linkAlphabet: a program that is a symlink to a file elsewhere, which can
// become unreadable (target moved away) without its directory entry changing.
func linkAlphabet() []step {
	var out []step
	for _, op := range []string{"add", "edit", "break", "remove", "target-away", "target-back", "touch-identical"} {
		out = append(out, step{Op: op, File: "L.mtail"})
	}
	return append(out, step{Op: "edit", File: "A.mtail"}, step{Op: "remove", File: "A.mtail"}, step{Op: "rescan"}, step{Op: "progdir-away-for-one-reload", File: "A.mtail"})
}

func TestC26(t *testing.T) {
	r := ev.Start(t, "C26", "exploration")
	defer r.Finish()
	r.Rule("program directory with up to 3 program files, a dot-file holding a valid program, a README holding a valid program, and a sub-directory holding programs; histories over {add, edit, touch-identical, break, remove, replace-by-dir} x files + renames to an eligible / ineligible / hidden name and back + rescan, and over a program that is a symlink to a file outside the directory {add, edit, break, remove, target moved away (entry present but unreadable), target back, the whole directory away for one reload}; every history of length <=2 (quick) / <=3 (thorough) over 2 files exhaustively, plus random length-12 histories over 3 files. After each step + LoadAllPrograms a numbered probe line is pushed (two barrier lines make its processing complete); the (program, VM) pairs that processed it, the per-version marker gauge, the probe counters and prog_loads/unloads/load_errors_total are compared with the model. Non-trivial: history in which the running set or a running version changed at least twice; distinct by history.")
	r.Assume("programs of different names use the same metric names with the same kinds (no kind clash: that interaction is C06's)")
	lh := func(id uint64, name string, l *logline.LogLine, phase int) {
		if phase != 0 {
			return
		}
		curObs.mu.Lock()
		if strings.Contains(name, curObs.prefix) {
			m := curObs.starts[l.Line]
			if m == nil {
				m = map[string][]uint64{}
				curObs.starts[l.Line] = m
			}
			m[name] = append(m[name], id)
		}
		curObs.mu.Unlock()
	}
	vm.VerifLineHook.Store(&lh)
	defer vm.VerifLineHook.Store(nil)

	var histories [][]step
	maxLen := ev.Pick(2, 3)
	hidx := 0
	var rec func(prefix []step, alpha []step)
	rec = func(prefix []step, alpha []step) {
		if len(prefix) > 0 {
			histories = append(histories, append([]step{}, prefix...))
		}
		if len(prefix) == maxLen {
			return
		}
		for _, s := range alpha {
			rec(append(prefix, s), alpha)
		}
	}
	// names are made unique per history below; here symbolic A/B/C
	rec(nil, alphabet([]string{"A.mtail", "B.mtail"}))
	maxLen = ev.Pick(3, 4)
	rec(nil, linkAlphabet())
	nExh := len(histories)
	rng := ev.NewRNG(ev.Seed(), "c26")
	for i := 0; i < ev.Pick(150, 6000); i++ {
		g := rng.Sub(i)
		alpha := append(alphabet([]string{"A.mtail", "B.mtail"}), alphabet([]string{"C.mtail", "A.mtail"})...)
		alpha = append(alpha, linkAlphabet()...)
		var h []step
		for k := 0; k < 12; k++ {
			h = append(h, ev.PickOne(g, alpha))
		}
		histories = append(histories, h)
	}
	r.Set("exhaustive_histories", nExh)
	base, _ := os.MkdirTemp(ev.Scratch(), "c26")
	defer os.RemoveAll(base)
	for _, hsym := range histories {
		hidx++
		prefix := fmt.Sprintf("h%d_", hidx)
		ren := func(n string) string {
			hidden := strings.HasPrefix(n, ".")
			n = strings.TrimPrefix(n, ".")
			n = prefix + n
			if hidden {
				n = "." + n
			}
			return n
		}
		var h []step
		for _, s := range hsym {
			s2 := step{Op: s.Op, File: ren(s.File)}
			if s.To != "" {
				s2.To = ren(s.To)
			}
			h = append(h, s2)
		}
		dir := filepath.Join(base, fmt.Sprintf("d%d", hidx))
		_ = os.MkdirAll(filepath.Join(dir, "subdir.mtail"), 0o755)
		_ = os.WriteFile(filepath.Join(dir, "subdir.mtail", prefix+"inner.mtail"), []byte(source(9001, false)), 0o644)
		_ = os.WriteFile(filepath.Join(dir, "."+prefix+"dot.mtail"), []byte(source(9002, false)), 0o644)
		_ = os.WriteFile(filepath.Join(dir, prefix+"README"), []byte(source(9003, false)), 0o644)
		_ = os.WriteFile(filepath.Join(dir, prefix+"notes.mtail.bak"), []byte(source(9004, false)), 0o644)
		w := &world{dir: dir, files: map[string]*fileState{}, running: map[string]int{}, loads: map[string]int{}, unloads: map[string]int{}, loadErrs: map[string]int{}, probesExp: map[string]int{}}
		// one program exists from the start
		w.write(prefix+"A.mtail", false)
		curObs.mu.Lock()
		curObs.prefix = prefix
		curObs.starts = map[string]map[string][]uint64{}
		curObs.mu.Unlock()
		store := metrics.NewStore()
		lines := make(chan *logline.LogLine)
		var wg sync.WaitGroup
		rt, err := mrt.New(lines, &wg, dir, store)
		if err != nil {
			t.Fatal(err)
		}
		w.scan()
		changes := 0
		bad := ""
		failStep := -1
		check := func(k int) string {
			probe := fmt.Sprintf("probe %d", k+1000)
			lines <- logline.New(nil, "log", probe)
			lines <- logline.New(nil, "log", "barrier")
			lines <- logline.New(nil, "log", "barrier")
			curObs.mu.Lock()
			got := curObs.starts[probe]
			curObs.mu.Unlock()
			var gotNames, wantNames []string
			for n, ids := range got {
				gotNames = append(gotNames, n)
				if len(ids) != 1 {
					return fmt.Sprintf("program %s processed the probe %d times (VMs %v)", n, len(ids), ids)
				}
			}
			for n := range w.running {
				wantNames = append(wantNames, n)
				w.probesExp[n]++
			}
			sort.Strings(gotNames)
			sort.Strings(wantNames)
			if strings.Join(gotNames, ",") != strings.Join(wantNames, ",") {
				return fmt.Sprintf("programs that processed the probe: %v, model says the running set is %v", gotNames, wantNames)
			}
			for n, v := range w.running {
				mv := store.FindMetricOrNil("ver", n)
				mp := store.FindMetricOrNil("probes", n)
				if mv == nil || mp == nil {
					return fmt.Sprintf("metrics of running program %s are not in the store", n)
				}
				dv, _ := mv.GetDatum()
				dp, _ := mp.GetDatum()
				if datum.GetInt(dv) != int64(v) {
					return fmt.Sprintf("program %s runs version %d, model says version %d is the most recently compiled", n, datum.GetInt(dv), v)
				}
				if datum.GetInt(dp) != int64(w.probesExp[n]) {
					return fmt.Sprintf("program %s counted %d probes, model %d", n, datum.GetInt(dp), w.probesExp[n])
				}
			}
			names := map[string]bool{}
			for n := range w.loads {
				names[n] = true
			}
			for n := range w.unloads {
				names[n] = true
			}
			for n := range w.loadErrs {
				names[n] = true
			}
			for n := range names {
				get := func(m interface{ Get(string) interface{ String() string } }) {}
				_ = get
				l := counter(func(k string) string {
					if v := mrt.ProgLoads.Get(k); v != nil {
						return v.String()
					}
					return ""
				}, n)
				u := counter(func(k string) string {
					if v := mrt.ProgUnloads.Get(k); v != nil {
						return v.String()
					}
					return ""
				}, n)
				e := counter(func(k string) string {
					if v := mrt.ProgLoadErrors.Get(k); v != nil {
						return v.String()
					}
					return ""
				}, n)
				if l != w.loads[n] || u != w.unloads[n] || e != w.loadErrs[n] {
					return fmt.Sprintf("counters for %s: loads/unloads/load_errors = %d/%d/%d, model %d/%d/%d", n, l, u, e, w.loads[n], w.unloads[n], w.loadErrs[n])
				}
			}
			return ""
		}
		bad = check(-1)
		for k, s := range h {
			if bad != "" {
				break
			}
			before := fmt.Sprint(w.running)
			// the whole program directory away for one reload (a directory-swap
			// deploy): that reload fails as a whole and changes nothing; the
			// next one, with the directory back, works as ever
			if s.Op == "progdir-away-for-one-reload" {
				_ = os.Rename(dir, dir+".away")
				if err := rt.LoadAllPrograms(); err == nil {
					bad = "LoadAllPrograms reported no error although the program directory does not exist"
					failStep = k
					_ = os.Rename(dir+".away", dir)
					break
				}
				_ = os.Rename(dir+".away", dir)
				r.Count("steps_"+s.Op, 1)
				if bad = check(k); bad != "" {
					failStep = k
				}
				continue
			}
			w.apply(s)
			if err := rt.LoadAllPrograms(); err != nil {
				bad = "LoadAllPrograms: " + err.Error()
				failStep = k
				break
			}
			w.scan()
			if fmt.Sprint(w.running) != before {
				changes++
			}
			r.Count("steps_"+s.Op, 1)
			if bad = check(k); bad != "" {
				failStep = k
			}
		}
		close(lines)
		wg.Wait()
		for n := range w.loads {
			mrt.ProgLoads.Delete(n)
			mrt.ProgUnloads.Delete(n)
			mrt.ProgLoadErrors.Delete(n)
		}
		_ = os.RemoveAll(dir)
		r.Eval(1)
		if bad != "" {
			r.Violation(cls(bad), map[string]any{"history": h, "failing_step": failStep, "what": bad})
			if r.Violations() > 8 {
				break
			}
			continue
		}
		if changes >= 2 {
			r.Distinct(fmt.Sprint(hsym))
			if hidx%97 == 0 {
				r.Sample(map[string]any{"history": hsym})
			}
		}
	}
}

func cls(w string) string {
	switch {
	case strings.Contains(w, "running set"):
		return "running-set-differs"
	case strings.Contains(w, "runs version"):
		return "wrong-version-running"
	case strings.Contains(w, "counters for"):
		return "load-counters-differ"
	case strings.Contains(w, "counted"):
		return "probe-count-differs"
	}
	return "other"
}
