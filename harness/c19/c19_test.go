//go:build verif

// C19 — one-shot runs process every line once and then terminate.
// Monitor: VM line-hook log (which program processed which (file, line), in
// which order) checked against the files' contents, termination watchdog, and
// the final store against the reference interpreter run on the OBSERVED
// per-program interleaving.
package c19

import (
	"context"
	"fmt"
	"net"
	"os"
	"path/filepath"
	"regexp"
	"runtime"
	"strconv"
	"strings"
	"sync"
	"sync/atomic"
	"testing"
	"time"

	"github.com/google/mtail/internal/logline"
	"github.com/google/mtail/internal/metrics"
	"github.com/google/mtail/internal/mtail"
	mrt "github.com/google/mtail/internal/runtime"
	"github.com/google/mtail/internal/runtime/vm"
	"github.com/google/mtail/verif/ev"
	"github.com/google/mtail/verif/gen"
	"github.com/google/mtail/verif/mt"
	"github.com/google/mtail/verif/refsem"
)

type seen struct {
	file, line string
}

var (
	logMu  sync.Mutex
	logBy  map[string][]seen // program -> processed (file, line) in order
	prefix string
	jit    atomic.Uint64
	stall  atomic.Int64 // per-line stall in ns applied at the VM line hook (the slow runs)
)

// readBufferSize is logstream's read buffer size, taken from the tree under
// test so that line ends can be placed exactly on a read boundary.
func readBufferSize() int {
	b, _ := os.ReadFile(filepath.Join(ev.Repo(), "internal/tailer/logstream/logstream.go"))
	if m := regexp.MustCompile(`defaultReadBufferSize\s*=\s*(\d+)`).FindSubmatch(b); m != nil {
		n, _ := strconv.Atoi(string(m[1]))
		if n > 0 {
			return n
		}
	}
	return 131072
}

func jitter() {
	x := jit.Add(0x9E3779B97F4A7C15)
	x ^= x >> 31
	switch x % 12 {
	case 0, 1:
		runtime.Gosched()
	case 2:
		time.Sleep(time.Duration(x>>10%300) * time.Microsecond)
	}
}

func dump() string {
	buf := make([]byte, 2<<20)
	return string(buf[:runtime.Stack(buf, true)])
}

type runSpec struct {
	Programs []string   `json:"programs"`
	Files    [][]string `json:"files_lines"`
	Tails    []string   `json:"files_unterminated_tail"`
}

func TestC19(t *testing.T) {
	r := ev.Start(t, "C19", "exploration")
	defer r.Finish()
	r.Rule("one-shot mtail.Server runs with a program directory of 1-3 generated programs (some raising runtime errors) and 1-3 log files with random contents (incl. empty files and a final unterminated line; every 8th run one file larger than the read buffer with an LF or CRLF line end placed on the buffer boundary; the last run(s) stalled at the hook so that the whole run lasts 6.5 s / 35 s), under GOMAXPROCS in {1,2,4,16} and PRNG jitter at the VM line hook. Checked: Run returns (a run is declared non-terminating only when the system is quiescent — no mtail goroutine running, no further line processed over four samples — and Run still has not returned); per program and file the processed lines are exactly the file's lines in file order, each once; the final exported store equals the reference interpreter run on the observed per-program interleaving. Non-trivial: >=2 files or >=2 programs and >=1 line changing the store; distinct by run index.")
	r.Assume("the reference is evaluated on the interleaving each program actually observed, so no search over interleavings is needed", "cases in which the reference needs unspecified behaviour (NaN ordering, else/otherwise ambiguity) are abandoned and counted")
	lh := func(id uint64, name string, l *logline.LogLine, phase int) {
		if phase != 0 {
			return
		}
		logMu.Lock()
		if strings.HasPrefix(name, prefix) {
			logBy[name] = append(logBy[name], seen{l.Filename, l.Line})
		}
		logMu.Unlock()
		jitter()
		if d := stall.Load(); d > 0 {
			time.Sleep(time.Duration(d))
		}
	}
	vm.VerifLineHook.Store(&lh)
	defer vm.VerifLineHook.Store(nil)
	defer runtime.GOMAXPROCS(runtime.GOMAXPROCS(0))
	base, _ := os.MkdirTemp(ev.Scratch(), "c19")
	defer os.RemoveAll(base)
	runs := ev.Pick(120, 1500)
	rng := ev.NewRNG(ev.Seed(), "c19")
	bufSize := readBufferSize()
	// the last runs are slow ones: every line is stalled at the hook so that
	// the run as a whole lasts 6.5 s (and 35 s in the thorough tier) — long
	// enough for any time-based shortcut in start-up / shutdown to matter
	slowRuns := map[int]time.Duration{runs - 1: 6500 * time.Millisecond}
	if ev.Thorough() {
		slowRuns[runs-2] = 35 * time.Second
	}
	for run := 0; run < runs; run++ {
		g := rng.Sub(run)
		stall.Store(0)
		runtime.GOMAXPROCS([]int{1, 2, 4, 16}[run%4])
		dir := filepath.Join(base, fmt.Sprintf("r%d", run))
		progDir := filepath.Join(dir, "progs")
		_ = os.MkdirAll(progDir, 0o755)
		pfx := fmt.Sprintf("r%d_", run)
		logMu.Lock()
		logBy, prefix = map[string][]seen{}, pfx
		logMu.Unlock()
		np := g.Range(1, 3)
		var progs []*gen.Program
		var names []string
		spec := runSpec{}
		ok := true
		for i := 0; i < np; i++ {
			p := gen.Generate(g, gen.Opts{ErrHeavy: i%2 == 1, Strptime: g.Intn(3) == 0, NoHist: g.Bool(), MetricPrefix: fmt.Sprintf("p%d_", i)})
			src := (&gen.Renderer{IndexStyle: g.Intn(2)}).Render(p)
			name := fmt.Sprintf("%sp%d.mtail", pfx, i)
			if _, err := mt.Compile(name, src); err != nil {
				ok = false // C01's subject; one-shot mode aborts on any compile error
				break
			}
			_ = os.WriteFile(filepath.Join(progDir, name), []byte(src), 0o644)
			progs = append(progs, p)
			names = append(names, name)
			spec.Programs = append(spec.Programs, src)
		}
		if !ok {
			r.Count("runs_skipped_compile", 1)
			_ = os.RemoveAll(dir)
			continue
		}
		nf := g.Range(1, 3)
		big := run%8 == 5 // one file larger than the read buffer, a line end placed on the buffer boundary
		var paths []string
		for f := 0; f < nf; f++ {
			n := g.Intn(25)
			if g.Intn(6) == 0 {
				n = 0
			}
			if _, slow := slowRuns[run]; slow {
				n = 30 + g.Intn(20)
			}
			var ls []string
			for k := 0; k < n; k++ {
				l := gen.GenLine(g)
				if l == "" {
					l = "blank"
				}
				ls = append(ls, l)
			}
			tail := ""
			if g.Intn(3) == 0 {
				tail = "b=tail" + fmt.Sprint(f)
			}
			content := ""
			if len(ls) > 0 {
				content = strings.Join(ls, "\n") + "\n"
			}
			if big && f == 0 {
				// CRLF or LF line ends; the line end that crosses the first read
				// boundary is placed so that the boundary falls before the CR,
				// between CR and LF, or after the LF
				eol := []string{"\r\n", "\n"}[g.Intn(2)]
				at := bufSize - 2 + g.Intn(3) // offset at which the boundary line's terminator starts
				var b strings.Builder
				ls = ls[:0]
				if g.Bool() {
					// a line longer than two read buffers, then ordinary lines
					long := strings.Repeat("#", 2*bufSize+g.Range(1, bufSize))
					ls = append(ls, long)
					b.WriteString(long + eol)
					at += b.Len() / bufSize * bufSize
					r.Count("big_files_with_a_line_longer_than_two_buffers", 1)
				}
				for b.Len() < at+2000 {
					l := gen.GenLine(g)
					if l == "" {
						l = "blank"
					}
					if room := at - b.Len(); room >= 0 && room < len(l)+200 {
						// this line ends at the boundary: pad or cut it to fit
						for len(l) < room {
							l += " pad"
						}
						l = l[:room]
						if l == "" {
							l = "x"
						}
					}
					ls = append(ls, l)
					b.WriteString(l + eol)
				}
				content = b.String()
				r.Count("big_files_with_line_end_on_read_boundary", 1)
			}
			content += tail
			p := filepath.Join(dir, fmt.Sprintf("log%d", f))
			_ = os.WriteFile(p, []byte(content), 0o644)
			paths = append(paths, p)
			spec.Files = append(spec.Files, ls)
			spec.Tails = append(spec.Tails, tail)
		}
		if d, ok := slowRuns[run]; ok && totalLines(spec) > 0 {
			// lines of one VM are sequential: per-line stall = duration / lines of the busiest program
			stall.Store(int64(d) / int64(totalLines(spec)))
			r.Count("slow_runs", 1)
			r.Set(fmt.Sprintf("slow_run_%d_target_s", run), d.Seconds())
		}
		store := metrics.NewStore()
		ctx, cancel := context.WithCancel(context.Background())
		pats := paths
		if run%4 == 3 {
			// the logs are found by one glob, which also matches an entry that
			// cannot be tailed and sorts first (a stale unix socket file)
			if ul, err := net.ListenUnix("unix", &net.UnixAddr{Name: filepath.Join(dir, "log-0sock"), Net: "unix"}); err == nil {
				ul.SetUnlinkOnClose(false)
				ul.Close()
				pats = []string{filepath.Join(dir, "log*")}
				r.Count("runs_with_a_glob_matching_an_untailable_entry", 1)
			}
		}
		opts := []mtail.Option{mtail.ProgramPath(progDir), mtail.LogPathPatterns(pats...), mtail.OneShot}
		switch run % 3 {
		case 1: // the binary always has an HTTP listener, also in one-shot mode
			opts = append(opts, mtail.BindUnixSocket(filepath.Join(dir, "http.sock")))
			r.Count("runs_with_unix_listener", 1)
		case 2:
			opts = append(opts, mtail.BindAddress("127.0.0.1", "0"))
			r.Count("runs_with_tcp_listener", 1)
		}
		m, err := mtail.New(ctx, store, opts...)
		if err != nil {
			cancel()
			r.Violation("server-start-failed", map[string]any{"spec": spec, "what": err.Error()})
			continue
		}
		done := make(chan struct{})
		go func() { _ = m.Run(); close(done) }()
		r.Eval(1)
		// "Run returns" is decided on the state of the system, not on a clock:
		// long after the expected duration, a run counts as not terminating only
		// when nothing in mtail is running any more and no further line is being
		// processed (see ev.AwaitOrQuiescent); slow progress just takes longer
		verdict, gdump := ev.AwaitOrQuiescent(done, 30*time.Second+2*slowRuns[run], 20*time.Minute, func() int64 {
			logMu.Lock()
			defer logMu.Unlock()
			n := int64(0)
			for _, v := range logBy {
				n += int64(len(v))
			}
			return n
		})
		if verdict != "" {
			cancel()
			stall.Store(0)
			if verdict == "inconclusive" {
				r.Inconclusive("a one-shot run was still making progress after 20 minutes")
				return
			}
			if len(gdump) > 60000 {
				gdump = gdump[:60000]
			}
			r.Violation("run-did-not-terminate", map[string]any{"spec": spec, "what": "Server.Run did not return in one-shot mode: every line was handed over, nothing in mtail is running any more, and Run is still waiting", "listener": []string{"none", "unix socket", "tcp"}[run%3], "goroutines": gdump})
			return // the server of this run is still alive: no further runs in this process
		}
		cancel()
		what := ""
		logMu.Lock()
		obs := map[string][]seen{}
		for k, v := range logBy {
			obs[k] = append([]seen{}, v...)
		}
		logMu.Unlock()
		abandoned := false
		changed := false
		for pi, name := range names {
			// per file: exactly the file's lines in order
			for fi, path := range paths {
				var got []string
				for _, s := range obs[name] {
					if s.file == path {
						got = append(got, s.line)
					}
				}
				want := append([]string{}, spec.Files[fi]...)
				if spec.Tails[fi] != "" {
					want = append(want, spec.Tails[fi])
				}
				if strings.Join(got, "\n") != strings.Join(want, "\n") || len(got) != len(want) {
					what = fmt.Sprintf("program %s processed %d lines of %s, the file has %d: processed %q want %q", name, len(got), filepath.Base(path), len(want), got, want)
				}
			}
			if what != "" {
				break
			}
			if len(obs[name]) != totalLines(spec) {
				what = fmt.Sprintf("program %s processed %d lines in total, the files hold %d", name, len(obs[name]), totalLines(spec))
				break
			}
			// final store == reference on the observed interleaving
			ref := refsem.New(progs[pi])
			for _, s := range obs[name] {
				ref.Line(s.file, s.line)
				if ref.Unspecified != "" {
					abandoned = true
					break
				}
			}
			if abandoned {
				break
			}
			var real []*metrics.Metric
			var refStates []*refsem.MetricState
			missing := ""
			for mi, gm := range progs[pi].Metrics {
				if gm.Hidden {
					continue
				}
				n := gm.Name
				if gm.As != "" {
					n = gm.As
				}
				rm := store.FindMetricOrNil(n, name)
				if rm == nil {
					missing = n
					break
				}
				real = append(real, rm)
				refStates = append(refStates, ref.State[mi])
				for _, d := range ref.State[mi].Data {
					if d.Written {
						changed = true
					}
				}
			}
			if missing != "" {
				what = fmt.Sprintf("metric %s of program %s is not in the store", missing, name)
				break
			}
			if d := mt.CompareRef(real, refStates, true); d != "" {
				what = fmt.Sprintf("final store of %s differs from the reference run on the observed interleaving: %s", name, d)
				break
			}
			r.Count("programs_reconciled", 1)
			r.Count("lines_processed", len(obs[name]))
		}
		for _, n := range names {
			mrt.ProgLoads.Delete(n)
			vm.ProgRuntimeErrors.Delete(n)
			vm.LineProcessingDurations.DeleteLabelValues(n)
		}
		_ = os.RemoveAll(dir)
		if abandoned {
			r.Count("runs_abandoned_unspecified", 1)
			continue
		}
		if what != "" {
			r.Violation(cls(what), map[string]any{"spec": spec, "what": what, "gomaxprocs": []int{1, 2, 4, 16}[run%4]})
			if r.Violations() > 6 {
				break
			}
			continue
		}
		if (np >= 2 || nf >= 2) && changed {
			r.Distinct(fmt.Sprint(run))
			if run < 3 {
				r.Sample(map[string]any{"programs": len(names), "files": len(paths), "lines": totalLines(spec), "first_program": spec.Programs[0]})
			}
		}
	}
	stall.Store(0)
	if r.Violations() == 0 {
		r.Floor("slow_runs", 1)
		r.Floor("big_files_with_line_end_on_read_boundary", 3)
	}
}

func init() { _ = strconv.Itoa }

func totalLines(s runSpec) int {
	n := 0
	for i := range s.Files {
		n += len(s.Files[i])
		if s.Tails[i] != "" {
			n++
		}
	}
	return n
}

func cls(w string) string {
	switch {
	case strings.Contains(w, "processed"):
		return "lines-not-exactly-once-in-order"
	case strings.Contains(w, "differs from the reference"):
		return "final-store-differs"
	}
	return "other"
}
