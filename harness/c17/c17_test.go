// C17 — pipes and sockets deliver all bytes, never splice connections, then end.
// Monitor: offline checker over the recorded write log and delivery log of real
// named pipes, unix/tcp stream sockets, unixgram/udp sockets and stdin, driven
// with random chunking, delays, partial final lines, closes and cancellation.
package c17

import (
	"bufio"
	"context"
	"encoding/json"
	"fmt"
	"net"
	"os"
	"os/exec"
	"path/filepath"
	"regexp"
	"runtime"
	"strconv"
	"strings"
	"sync"
	"syscall"
	"testing"
	"time"

	"github.com/google/mtail/internal/tailer/logstream"
	"github.com/google/mtail/verif/ev"
	"github.com/google/mtail/verif/fsdrv"
)

const watchdog = 60 * time.Second

type writerPlan struct {
	ID      int      `json:"writer"`
	Lines   []string `json:"lines"` // complete lines (without newline)
	Tail    string   `json:"unterminated_tail"`
	Chunks  []int    `json:"chunk_sizes"`
	DelayUS []int    `json:"delays_us"`
	CRLF    bool     `json:"crlf"`
}

func (w writerPlan) bytes() string {
	var b strings.Builder
	for _, l := range w.Lines {
		b.WriteString(l)
		if w.CRLF {
			b.WriteString("\r")
		}
		b.WriteString("\n")
	}
	b.WriteString(w.Tail)
	return b.String()
}

type scenario struct {
	Kind       string       `json:"stream"` // fifo unix tcp unixgram udp stdin
	OneShot    bool         `json:"one_shot"`
	Writers    []writerPlan `json:"writers"`
	CancelAt   string       `json:"cancel"` // "after-all" | "before-data" | "mid"
	CancelFrac float64      `json:"cancel_after_fraction"`
}

func genScenario(g *ev.RNG, kind string) scenario {
	s := scenario{Kind: kind}
	nw := 1
	switch kind {
	case "unix", "tcp":
		nw = g.Range(1, 4)
		s.OneShot = g.Intn(5) == 0
		if s.OneShot {
			nw = 1
		}
	case "unixgram", "udp":
		nw = g.Range(1, 3)
	}
	switch g.Intn(6) {
	case 0:
		s.CancelAt = "before-data"
	case 1:
		s.CancelAt, s.CancelFrac = "mid", g.Float()
	default:
		s.CancelAt = "after-all"
	}
	if kind == "fifo" || kind == "stdin" || s.OneShot {
		// these end by themselves when the writer closes
		if s.CancelAt == "mid" && g.Bool() {
			s.CancelAt = "after-all"
		}
	}
	for w := 0; w < nw; w++ {
		p := writerPlan{ID: w, CRLF: g.Intn(5) == 0}
		nl := g.Range(1, 25)
		for i := 0; i < nl; i++ {
			l := fmt.Sprintf("w%d:%d:", w, i)
			for k := g.Intn(30); k > 0; k-- {
				l += string("abcdefghij xyz\xc3\xa9"[g.Intn(16)])
			}
			if g.Intn(12) == 0 {
				l = fmt.Sprintf("w%d:%d:", w, i) // short
			}
			p.Lines = append(p.Lines, strings.TrimRight(l, "\r"))
		}
		if kind != "unixgram" && kind != "udp" && g.Intn(3) == 0 {
			p.Tail = fmt.Sprintf("w%d:tail", w)
		}
		total := len(p.bytes())
		for done := 0; done < total; {
			c := g.Range(1, 40)
			if g.Intn(4) == 0 {
				c = g.Range(1, 3)
			}
			if done+c > total {
				c = total - done
			}
			p.Chunks = append(p.Chunks, c)
			d := 0
			if g.Intn(3) == 0 {
				d = g.Intn(800)
			}
			p.DelayUS = append(p.DelayUS, d)
			done += c
		}
		s.Writers = append(s.Writers, p)
	}
	return s
}

func dump() string {
	buf := make([]byte, 1<<20)
	return string(buf[:runtime.Stack(buf, true)])
}

type outcome struct {
	what     string
	inconc   bool
	got      []string
	closedOK bool
}

// check compares delivered lines with the plan. complete: every writer wrote
// everything and closed before the stream was cancelled.
func check(s scenario, got []string, complete bool) string {
	per := map[int][]string{}
	var cut []string // fragments too short to carry a writer marker (cancelled runs only)
	for _, l := range got {
		var id int
		if _, err := fmt.Sscanf(l, "w%d:", &id); err != nil || !strings.HasPrefix(l, fmt.Sprintf("w%d:", id)) {
			if !complete {
				cut = append(cut, l)
				continue
			}
			return fmt.Sprintf("delivered line %q is not a line (or tail) any writer wrote", l)
		}
		// a spliced line contains a second writer marker
		for _, w := range s.Writers {
			if w.ID != id && strings.Contains(l, fmt.Sprintf("w%d:", w.ID)) {
				return fmt.Sprintf("delivered line %q merges data of connections/writers %d and %d", l, id, w.ID)
			}
		}
		per[id] = append(per[id], l)
	}
	for _, w := range s.Writers {
		g := per[w.ID]
		want := append([]string{}, w.Lines...)
		if w.Tail != "" {
			want = append(want, w.Tail)
		}
		if complete {
			if len(g) != len(want) {
				return fmt.Sprintf("writer %d: %d lines delivered, %d written (delivered %q)", w.ID, len(g), len(want), g)
			}
			for i := range g {
				if g[i] != want[i] {
					return fmt.Sprintf("writer %d: line %d delivered as %q, written %q", w.ID, i, g[i], want[i])
				}
			}
			continue
		}
		// a fragment cut inside the marker belongs to the writer whose next
		// undelivered line starts with it
		if len(cut) > 0 && len(g) < len(want) {
			for ci, c := range cut {
				if c != "" && strings.HasPrefix(want[len(g)], c) {
					cut = append(cut[:ci], cut[ci+1:]...)
					break
				}
			}
		}
		// cancelled early: what was delivered must be a prefix of what was written;
		// the last delivered element may be a cut line
		for i := range g {
			if i >= len(want) {
				return fmt.Sprintf("writer %d: more lines delivered (%d) than written (%d)", w.ID, len(g), len(want))
			}
			if g[i] == want[i] {
				continue
			}
			if i == len(g)-1 && strings.HasPrefix(want[i]+"\r", g[i]) {
				continue
			}
			return fmt.Sprintf("writer %d: line %d delivered as %q, written %q", w.ID, i, g[i], want[i])
		}
	}
	if len(cut) > 0 {
		return fmt.Sprintf("delivered line %q is not a prefix of anything a writer wrote", cut[0])
	}
	return ""
}

func writeChunks(w writerPlan, write func([]byte) error, stop <-chan struct{}) (written int) {
	data := []byte(w.bytes())
	for i, c := range w.Chunks {
		select {
		case <-stop:
			return
		default:
		}
		if w.DelayUS[i] > 0 {
			time.Sleep(time.Duration(w.DelayUS[i]) * time.Microsecond)
		}
		if err := write(data[written : written+c]); err != nil {
			return
		}
		written += c
	}
	return
}

// datagrams: whole newline-terminated lines per datagram
func writeDatagrams(w writerPlan, conn net.Conn, stop <-chan struct{}) {
	i := 0
	for i < len(w.Lines) {
		select {
		case <-stop:
			return
		default:
		}
		n := 1
		if i%3 == 0 && i+2 <= len(w.Lines) {
			n = 2
		}
		var b strings.Builder
		for k := 0; k < n; k++ {
			b.WriteString(w.Lines[i+k] + "\n")
		}
		time.Sleep(300 * time.Microsecond)
		if i%5 == 2 {
			// an empty datagram carries no data and must change nothing
			_, _ = conn.Write(nil)
			time.Sleep(100 * time.Microsecond)
		}
		if _, err := conn.Write([]byte(b.String())); err != nil {
			return
		}
		i += n
	}
}

// freePort asks the kernel for an unused port of the given family.
func freePort(kind string) string {
	if kind == "udp" {
		l, err := net.ListenPacket("udp", "127.0.0.1:0")
		if err != nil {
			return "127.0.0.1:0"
		}
		defer l.Close()
		return l.LocalAddr().String()
	}
	l, err := net.Listen("tcp", "127.0.0.1:0")
	if err != nil {
		return "127.0.0.1:0"
	}
	defer l.Close()
	return l.Addr().String()
}

func runScenario(dir string, idx int, s scenario) outcome {
	var target, dial string
	switch s.Kind {
	case "fifo":
		target = filepath.Join(dir, fmt.Sprintf("p%d", idx))
		if err := syscall.Mkfifo(target, 0o600); err != nil {
			return outcome{what: "mkfifo: " + err.Error(), inconc: true}
		}
	case "unix", "unixgram":
		dial = filepath.Join(dir, fmt.Sprintf("s%d", idx))
		target = s.Kind + "://" + dial
	case "tcp", "udp":
		dial = freePort(s.Kind)
		target = s.Kind + "://" + dial
	}
	defer os.Remove(dial)
	ctx, cancel := context.WithCancel(context.Background())
	defer cancel()
	wk := fsdrv.NewStepWaker()
	tick := make(chan struct{})
	go func() { // a poll timer
		for {
			select {
			case <-tick:
				return
			case <-time.After(500 * time.Microsecond):
				wk.Broadcast()
			}
		}
	}()
	defer close(tick)
	var wg sync.WaitGroup
	one := logstream.OneShotDisabled
	if s.OneShot {
		one = logstream.OneShotEnabled
	}
	ls, err := logstream.New(ctx, &wg, wk, target, one)
	for try := 0; err != nil && strings.Contains(err.Error(), "address already in use") && try < 8 && (s.Kind == "tcp" || s.Kind == "udp"); try++ {
		// the port found free was taken by a scenario running in parallel
		dial = freePort(s.Kind)
		target = s.Kind + "://" + dial
		ls, err = logstream.New(ctx, &wg, wk, target, one)
	}
	if err != nil {
		return outcome{what: "logstream.New: " + err.Error(), inconc: true}
	}
	var mu sync.Mutex
	var got []string
	closed := make(chan struct{})
	go func() {
		for l := range ls.Lines() {
			mu.Lock()
			got = append(got, l.Line)
			mu.Unlock()
		}
		close(closed)
	}()
	snapshot := func() []string { mu.Lock(); defer mu.Unlock(); return append([]string{}, got...) }
	totalLines := 0
	for _, w := range s.Writers {
		totalLines += len(w.Lines)
		if w.Tail != "" {
			totalLines++
		}
	}
	stop := make(chan struct{})
	var wwg sync.WaitGroup
	if s.CancelAt == "before-data" {
		cancel()
		select {
		case <-closed:
		case <-time.After(watchdog):
			return outcome{what: "cancelled before any data: the stream's output did not end\n" + dump()}
		}
		return outcome{got: snapshot(), closedOK: true}
	}
	for _, w := range s.Writers {
		w := w
		wwg.Add(1)
		go func() {
			defer wwg.Done()
			switch s.Kind {
			case "fifo":
				var f *os.File
				for {
					// non-blocking open: a blocking one would hang for ever once the reader is gone
					fd, err := syscall.Open(target, syscall.O_WRONLY|syscall.O_NONBLOCK, 0)
					if err == nil {
						_ = syscall.SetNonblock(fd, false)
						f = os.NewFile(uintptr(fd), target)
						break
					}
					select {
					case <-stop:
						return
					case <-time.After(200 * time.Microsecond):
					}
				}
				writeChunks(w, func(b []byte) error { _, err := f.Write(b); return err }, stop)
				f.Close()
			case "unix", "tcp":
				var c net.Conn
				for try := 0; try < 200; try++ {
					cc, derr := net.Dial(s.Kind, dial)
					if derr == nil {
						c = cc
						break
					}
					time.Sleep(time.Millisecond)
				}
				if c == nil {
					return
				}
				writeChunks(w, func(b []byte) error { _, err := c.Write(b); return err }, stop)
				c.Close()
			case "unixgram", "udp":
				c, err := net.Dial(s.Kind, dial)
				if err != nil {
					return
				}
				writeDatagrams(w, c, stop)
				c.Close()
			}
		}()
	}
	complete := true
	if s.CancelAt == "mid" {
		target := int(float64(totalLines) * s.CancelFrac)
		fsdrv.Await(func() bool { return len(snapshot()) >= target }, 5*time.Second)
		cancel()
		close(stop)
		complete = false
	}
	wdone := make(chan struct{})
	go func() { wwg.Wait(); close(wdone) }()
	select {
	case <-wdone:
	case <-time.After(watchdog):
		return outcome{what: "writers did not finish (harness)", inconc: true}
	}
	if s.CancelAt == "after-all" {
		selfEnding := s.Kind == "fifo" || s.OneShot
		if !selfEnding {
			// wait until everything written has come out, then cancel
			if !fsdrv.Await(func() bool { return len(snapshot()) >= totalLines }, watchdog) {
				g := snapshot()
				if w := check(s, g, true); w != "" {
					return outcome{what: "after all writers closed: " + w, got: g}
				}
			}
			cancel()
		}
	}
	select {
	case <-closed:
	case <-time.After(watchdog):
		return outcome{what: fmt.Sprintf("the stream's output did not end (%s, cancel=%s)\n%s", s.Kind, s.CancelAt, dump()), got: snapshot()}
	}
	g := snapshot()
	if w := check(s, g, complete); w != "" {
		return outcome{what: w, got: g}
	}
	return outcome{got: g, closedOK: true}
}

// ---- stdin through a re-exec'd helper ----------------------------------------

func stdinChild() {
	ev.QuietGlog()
	ctx, cancel := context.WithCancel(context.Background())
	defer cancel()
	var wg sync.WaitGroup
	wk := fsdrv.NewStepWaker()
	go func() {
		for {
			time.Sleep(500 * time.Microsecond)
			wk.Broadcast()
		}
	}()
	ls, err := logstream.New(ctx, &wg, wk, "-", logstream.OneShotDisabled)
	if err != nil {
		fmt.Println("ERROR", err)
		return
	}
	var got []string
	for l := range ls.Lines() {
		got = append(got, l.Line)
	}
	b, _ := json.Marshal(got)
	fmt.Println("DELIVERED " + string(b))
}

func runStdin(s scenario) outcome {
	cmd := exec.Command(os.Args[0], "-test.run", "^TestC17$")
	cmd.Env = append(os.Environ(), "VERIF_C17_STDIN=1")
	in, _ := cmd.StdinPipe()
	out, _ := cmd.StdoutPipe()
	if err := cmd.Start(); err != nil {
		return outcome{what: "start helper: " + err.Error(), inconc: true}
	}
	w := s.Writers[0]
	writeChunks(w, func(b []byte) error { _, err := in.Write(b); return err }, make(chan struct{}))
	in.Close()
	done := make(chan []string, 1)
	go func() {
		sc := bufio.NewScanner(out)
		sc.Buffer(make([]byte, 1<<20), 16<<20)
		var got []string
		for sc.Scan() {
			if strings.HasPrefix(sc.Text(), "DELIVERED ") {
				_ = json.Unmarshal([]byte(strings.TrimPrefix(sc.Text(), "DELIVERED ")), &got)
			}
		}
		done <- got
	}()
	select {
	case g := <-done:
		_ = cmd.Wait()
		if wt := check(s, g, true); wt != "" {
			return outcome{what: wt, got: g}
		}
		return outcome{got: g, closedOK: true}
	case <-time.After(watchdog):
		_ = cmd.Process.Signal(syscall.SIGQUIT)
		return outcome{what: "stdin stream did not end after its writer closed"}
	}
}

func TestC17(t *testing.T) {
	if os.Getenv("VERIF_C17_STDIN") != "" {
		stdinChild()
		return
	}
	r := ev.Start(t, "C17", "exploration")
	defer r.Finish()
	r.Rule("schedules on real named pipes, unix and tcp stream sockets (1-4 concurrent connections, one-shot and continuous), unixgram and udp sockets (1-3 senders, whole-line datagrams with empty datagrams in between) and stdin (re-exec'd helper), plus two special schedules (a stream connection cancelled while a single small write — many lines + tail — is still being handed to a slow consumer: everything read must come out; one unixgram sender building a newline-free backlog up to the read-buffer size followed by a large datagram of lines): random chunking incl. cuts inside a line and inside CRLF, random delays, unterminated final lines, closes, and cancellation before any data / mid-way / after everything. Offline check of the delivery log against the write log: per writer the delivered lines equal the written lines in order plus the tail once (complete runs) or a prefix of them (cancelled runs); no delivered line contains data of two writers; the output channel closes after the writer closes (pipes, one-shot) or after cancellation. Non-trivial: schedule with >=2 writers or a tail or a mid-way cancel; distinct by scenario.")
	r.Assume("a poll timer is emulated by broadcasting the stream waker every 0.5ms", "datagram senders pace their sends (loopback UDP is lossless below receive-buffer overflow)", "a single write of < 3 KiB on a unix / loopback TCP stream socket is queued as one kernel buffer, so a read (128 KiB buffer) that returns any of it returns all of it", "unixgram is reliable (a sender blocks rather than lose a datagram)", "'ends' is checked with a 60s watchdog; its firing is a violation only together with the goroutine dump showing the stream parked")
	dir, _ := os.MkdirTemp(ev.Scratch(), "c17")
	defer os.RemoveAll(dir)
	per := ev.Pick(60, 1500)
	rng := ev.NewRNG(ev.Seed(), "c17")
	kinds := []string{"fifo", "unix", "tcp", "unixgram", "udp"}
	idx := 0
	for ki, kind := range kinds {
		var mu sync.Mutex
		stopped := false
		ev.Parallel(per, 8, func(i int) {
			mu.Lock()
			if stopped {
				mu.Unlock()
				return
			}
			idx++
			my := idx
			mu.Unlock()
			g := rng.Sub(ki*100000 + i)
			s := genScenario(g, kind)
			o := runScenario(dir, my, s)
			r.Eval(1)
			r.Count("schedules_"+kind, 1)
			r.Count("cancel_"+s.CancelAt, 1)
			if o.what != "" {
				if o.inconc {
					r.Inconclusive(o.what)
				} else {
					r.Violation(kind+"-"+cls(o.what), map[string]any{"scenario": s, "what": o.what, "delivered": o.got})
				}
				mu.Lock()
				if r.Violations() > 6 {
					stopped = true
				}
				mu.Unlock()
				return
			}
			r.Count("lines_delivered", len(o.got))
			if len(s.Writers) >= 2 || s.Writers[0].Tail != "" || s.CancelAt == "mid" {
				r.Distinct(fmt.Sprintf("%+v", s))
				if i == 1 {
					r.Sample(map[string]any{"stream": kind, "writers": len(s.Writers), "cancel": s.CancelAt, "chunks_first_writer": s.Writers[0].Chunks, "delivered": len(o.got)})
				}
			}
		})
	}
	// special schedules (see the functions): cancellation while a chunk that
	// was read is still being handed over; a large datagram behind a backlog
	bufSize := 131072
	if b, err := os.ReadFile(filepath.Join(ev.Repo(), "internal/tailer/logstream/logstream.go")); err == nil {
		if m := regexp.MustCompile(`defaultReadBufferSize\s*=\s*(\d+)`).FindSubmatch(b); m != nil {
			if n, _ := strconv.Atoi(string(m[1])); n > 4096 {
				bufSize = n
			}
		}
	}
	ev.Parallel(ev.Pick(200, 2000), 8, func(i int) {
		g := rng.Sub(700000 + i)
		var o outcome
		name := ""
		switch {
		case i%10 == 0 || i%10 == 1:
			kind := []string{"unix", "tcp"}[i%2]
			name = "cancel-during-delivery-" + kind
			o = cancelDuringDelivery(dir, 500000+i, g, kind)
		case i%10 >= 4:
			kind := []string{"unix", "tcp"}[i%2]
			name = "connect-at-cancel-" + kind
			o = connectAtCancel(dir, 500000+i, g, kind)
		default:
			name = "datagram-backlog"
			o = datagramBacklog(dir, 500000+i, g, bufSize)
		}
		r.Eval(1)
		r.Count("schedules_"+name, 1)
		if o.what != "" {
			if o.inconc {
				r.Inconclusive(o.what)
			} else {
				r.Violation(name+"-"+cls(o.what), map[string]any{"schedule": name, "what": o.what, "delivered": o.got})
			}
			return
		}
		r.Distinct(fmt.Sprint(name, i))
	})
	for i := 0; i < ev.Pick(8, 150); i++ {
		g := rng.Sub(900000 + i)
		s := genScenario(g, "stdin")
		s.CancelAt = "after-all"
		o := runStdin(s)
		r.Eval(1)
		r.Count("schedules_stdin", 1)
		if o.what != "" {
			if o.inconc {
				r.Inconclusive(o.what)
			} else {
				r.Violation("stdin-"+cls(o.what), map[string]any{"scenario": s, "what": o.what, "delivered": o.got})
			}
		}
	}
}

// streamCase sets up one stream of the given kind with its own poll timer and a
// consumer that takes perLine for every delivered line.
type streamCase struct {
	dial   string
	cancel context.CancelFunc
	closed chan struct{}
	mu     sync.Mutex
	got    []string
	stop   func()
}

func (c *streamCase) snapshot() []string {
	c.mu.Lock()
	defer c.mu.Unlock()
	return append([]string{}, c.got...)
}

func newStreamCase(dir string, idx int, kind string, perLine time.Duration) (*streamCase, string) {
	c := &streamCase{closed: make(chan struct{})}
	var target string
	switch kind {
	case "unix", "unixgram":
		c.dial = filepath.Join(dir, fmt.Sprintf("x%d", idx))
		target = kind + "://" + c.dial
	default:
		c.dial = freePort(kind)
		target = kind + "://" + c.dial
	}
	ctx, cancel := context.WithCancel(context.Background())
	c.cancel = cancel
	wk := fsdrv.NewStepWaker()
	tick := make(chan struct{})
	go func() {
		for {
			select {
			case <-tick:
				return
			case <-time.After(500 * time.Microsecond):
				wk.Broadcast()
			}
		}
	}()
	c.stop = func() { cancel(); close(tick); os.Remove(c.dial) }
	var wg sync.WaitGroup
	ls, err := logstream.New(ctx, &wg, wk, target, logstream.OneShotDisabled)
	for try := 0; err != nil && strings.Contains(err.Error(), "address already in use") && try < 8 && kind == "tcp"; try++ {
		c.dial = freePort(kind)
		target = kind + "://" + c.dial
		ls, err = logstream.New(ctx, &wg, wk, target, logstream.OneShotDisabled)
	}
	if err != nil {
		c.stop()
		return nil, "logstream.New: " + err.Error()
	}
	go func() {
		for l := range ls.Lines() {
			c.mu.Lock()
			c.got = append(c.got, l.Line)
			c.mu.Unlock()
			if perLine > 0 {
				time.Sleep(perLine)
			}
		}
		close(c.closed)
	}()
	return c, ""
}

// cancelDuringDelivery: one connection writes, in ONE small write (a single
// kernel buffer: a read that returns any of it returns all of it), many short
// lines plus an unterminated tail and keeps the connection open; the consumer
// is slow; the stream is cancelled after k of the lines came out. Having read
// the write, the stream must deliver all of it — the remaining lines and the
// tail — before its output ends.
func cancelDuringDelivery(dir string, idx int, g *ev.RNG, kind string) outcome {
	c, bad := newStreamCase(dir, idx, kind, time.Duration(g.Range(50, 300))*time.Microsecond)
	if c == nil {
		return outcome{what: bad, inconc: true}
	}
	defer c.stop()
	var conn net.Conn
	for try := 0; try < 200 && conn == nil; try++ {
		if cc, err := net.Dial(kind, c.dial); err == nil {
			conn = cc
		} else {
			time.Sleep(time.Millisecond)
		}
	}
	if conn == nil {
		return outcome{what: "dial failed (harness)", inconc: true}
	}
	defer conn.Close()
	n := g.Range(20, 120)
	var want []string
	var b strings.Builder
	for i := 0; i < n && b.Len() < 2800; i++ {
		l := fmt.Sprintf("w0:%d:%s", i, strings.Repeat("x", g.Intn(12)))
		want = append(want, l)
		b.WriteString(l + "\n")
	}
	want = append(want, "w0:tail")
	b.WriteString("w0:tail")
	if _, err := conn.Write([]byte(b.String())); err != nil {
		return outcome{what: "write failed (harness): " + err.Error(), inconc: true}
	}
	k := g.Range(1, len(want)-2)
	if !fsdrv.Await(func() bool { return len(c.snapshot()) >= k }, watchdog) {
		return outcome{what: fmt.Sprintf("only %d of %d written lines were delivered before the watchdog\n%s", len(c.snapshot()), len(want)-1, dump()), got: c.snapshot()}
	}
	c.cancel()
	select {
	case <-c.closed:
	case <-time.After(watchdog):
		return outcome{what: "cancelled during delivery: the stream's output did not end\n" + dump(), got: c.snapshot()}
	}
	got := c.snapshot()
	if strings.Join(got, "\n") != strings.Join(want, "\n") {
		return outcome{what: fmt.Sprintf("cancelled after %d lines of a %d-byte single write had been delivered: %d lines delivered, %d written incl. the unterminated tail (last delivered %q)", k, b.Len(), len(got), len(want), got[len(got)-1]), got: got}
	}
	return outcome{got: got, closedOK: true}
}

// datagramBacklog: one unixgram sender (reliable: the sender blocks when the
// receive queue is full) sends many datagrams without a newline — the reader
// accumulates them as one unterminated line — and then a large datagram full
// of lines. The delivered lines are the lines of the concatenated payloads.
func datagramBacklog(dir string, idx int, g *ev.RNG, bufSize int) outcome {
	c, bad := newStreamCase(dir, idx, "unixgram", 0)
	if c == nil {
		return outcome{what: bad, inconc: true}
	}
	defer c.stop()
	conn, err := net.Dial("unixgram", c.dial)
	if err != nil {
		return outcome{what: "dial failed (harness): " + err.Error(), inconc: true}
	}
	defer conn.Close()
	var all strings.Builder
	send := func(p string) bool {
		all.WriteString(p)
		_, err := conn.Write([]byte(p))
		return err == nil
	}
	backlog := g.Range(bufSize/2, bufSize-2000)
	for all.Len() < backlog {
		if !send("w0:" + strings.Repeat("b", g.Range(500, 3000))) {
			return outcome{what: "datagram send failed (harness)", inconc: true}
		}
	}
	var big strings.Builder
	big.WriteString("end-of-backlog\n")
	size := g.Range(2000, 60000)
	for i := 0; big.Len() < size; i++ {
		big.WriteString(fmt.Sprintf("w0:%d:%s\n", i, strings.Repeat("y", g.Intn(60))))
	}
	if !send(big.String()) || !send("w0:last\n") {
		return outcome{what: "datagram send failed (harness)", inconc: true}
	}
	want := strings.Split(strings.TrimSuffix(all.String(), "\n"), "\n")
	if !fsdrv.Await(func() bool { g := c.snapshot(); return len(g) > 0 && g[len(g)-1] == "w0:last" }, watchdog) {
		got := c.snapshot()
		return outcome{what: fmt.Sprintf("after %d bytes of newline-free datagrams and a %d-byte datagram of lines: %d lines delivered, %d written; the last line never arrived", backlog, big.Len(), len(got), len(want)), got: clipLines(got)}
	}
	got := c.snapshot()
	if len(got) != len(want) {
		return outcome{what: fmt.Sprintf("after %d bytes of newline-free datagrams and a %d-byte datagram of lines: %d lines delivered, %d written", backlog, big.Len(), len(got), len(want)), got: clipLines(got)}
	}
	for i := range got {
		if got[i] != want[i] {
			return outcome{what: fmt.Sprintf("line %d delivered as %.80q, written %.80q", i, got[i], want[i]), got: clipLines(got)}
		}
	}
	c.cancel()
	select {
	case <-c.closed:
	case <-time.After(watchdog):
		return outcome{what: "cancelled after everything: the stream's output did not end\n" + dump()}
	}
	return outcome{got: nil, closedOK: true}
}

// connectAtCancel: connections keep arriving (connect, write a line, close)
// while the stream is cancelled: one accepted at that very moment must neither
// be lost track of nor find the output already closed. Everything delivered is
// a whole line some connection wrote, and the output ends.
func connectAtCancel(dir string, idx int, g *ev.RNG, kind string) outcome {
	c, bad := newStreamCase(dir, idx, kind, 0)
	if c == nil {
		return outcome{what: bad, inconc: true}
	}
	defer c.stop()
	dialWrite := func(line string) bool {
		cc, err := net.Dial(kind, c.dial)
		if err != nil {
			return false
		}
		_, _ = cc.Write([]byte(line + "\n"))
		cc.Close()
		return true
	}
	ok := false
	for try := 0; try < 200 && !ok; try++ {
		if ok = dialWrite("w0:0:first"); !ok {
			time.Sleep(time.Millisecond)
		}
	}
	if !ok || !fsdrv.Await(func() bool { return len(c.snapshot()) >= 1 }, watchdog) {
		return outcome{what: "first connection's line was not delivered (harness or stream)", inconc: !ok, got: c.snapshot()}
	}
	stop := make(chan struct{})
	var dwg sync.WaitGroup
	for d := 1; d <= 3; d++ {
		d := d
		dwg.Add(1)
		go func() {
			defer dwg.Done()
			for n := 0; ; n++ {
				select {
				case <-stop:
					return
				default:
				}
				if !dialWrite(fmt.Sprintf("w%d:%d:storm", d, n)) {
					select {
					case <-stop:
						return
					case <-time.After(50 * time.Microsecond):
					}
				}
			}
		}()
	}
	time.Sleep(time.Duration(g.Intn(1500)) * time.Microsecond)
	c.cancel()
	var res outcome
	select {
	case <-c.closed:
	case <-time.After(watchdog):
		res = outcome{what: "cancelled while connections keep arriving: the stream's output did not end\n" + dump()}
	}
	close(stop)
	dwg.Wait()
	if res.what != "" {
		return res
	}
	lineRe := regexp.MustCompile(`^w\d+:\d+:(first|storm)$`)
	for _, l := range c.snapshot() {
		if !lineRe.MatchString(l) {
			return outcome{what: fmt.Sprintf("delivered line %q is not a line any connection wrote", l), got: clipLines(c.snapshot())}
		}
	}
	return outcome{closedOK: true}
}

func clipLines(ls []string) []string {
	var out []string
	for i, l := range ls {
		if i >= 6 && i < len(ls)-3 {
			continue
		}
		if len(l) > 100 {
			l = l[:100] + "..."
		}
		out = append(out, l)
	}
	return out
}

func cls(w string) string {
	switch {
	case strings.Contains(w, "did not end"):
		return "output-did-not-end"
	case strings.Contains(w, "merges data"):
		return "connections-spliced"
	case strings.Contains(w, "lines delivered"):
		return "line-lost-or-duplicated"
	case strings.Contains(w, "delivered as"):
		return "line-content-differs"
	}
	return "other"
}
