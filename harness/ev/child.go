package ev

import (
	"bufio"
	"encoding/json"
	"fmt"
	"os"
	"os/exec"
	"path/filepath"
	"strconv"
	"sync"
	"syscall"
	"time"
)

// Child-process sharding: a monitor whose observation is "the process died"
// (compiler / VM crashes) runs its cases in child processes of the same test
// binary. Before each case the child writes a marker (index + input) so that a
// death identifies the case; results are appended to a JSONL file.

type Child struct {
	Shard, NShards, Start, Total int
	dir                          string
	out                          *os.File
	mu                           sync.Mutex
}

// ChildFromEnv returns the child context when this process was started by
// RunShards, else nil.
func ChildFromEnv() *Child {
	spec := os.Getenv("VERIF_CHILD")
	if spec == "" {
		return nil
	}
	c := &Child{dir: os.Getenv("VERIF_CHILD_DIR")}
	fmt.Sscanf(spec, "%d/%d/%d/%d", &c.Shard, &c.NShards, &c.Start, &c.Total)
	f, err := os.OpenFile(filepath.Join(c.dir, fmt.Sprintf("out-%d.jsonl", c.Shard)), os.O_APPEND|os.O_CREATE|os.O_WRONLY, 0o644)
	if err != nil {
		panic(err)
	}
	c.out = f
	QuietGlog()
	return c
}

// Mine reports whether case i belongs to this child.
func (c *Child) Mine(i int) bool { return i >= c.Start && i%c.NShards == c.Shard }

// Mark records the case about to be executed.
func (c *Child) Mark(i int, data []byte) {
	p := filepath.Join(c.dir, fmt.Sprintf("cur-%d", c.Shard))
	_ = os.WriteFile(p+".tmp", append([]byte(strconv.Itoa(i)+"\n"), data...), 0o644)
	_ = os.Rename(p+".tmp", p)
}

// Report appends one JSON record.
func (c *Child) Report(v any) {
	b, err := json.Marshal(Safe(v))
	if err != nil {
		b = []byte(fmt.Sprintf("%q", fmt.Sprint(v)))
	}
	c.mu.Lock()
	c.out.Write(append(b, '\n'))
	c.mu.Unlock()
}

// Done marks normal completion of the shard.
func (c *Child) Done() {
	c.Report(map[string]any{"kind": "done", "shard": c.Shard})
	c.out.Close()
}

type Crash struct {
	Shard int
	Index int
	Input []byte
	Log   string // path of the child's output
	Hang  bool
}

type ShardsResult struct {
	Records []json.RawMessage
	Crashes []Crash
}

// RunShards runs nshards children of the current test binary (test function
// testName), restarting a shard after the case that killed it. perChild is the
// wall-clock watchdog for one child run (its firing is reported as Hang).
func RunShards(testName string, nshards, total int, perChild time.Duration, extraEnv ...string) ShardsResult {
	dir, err := os.MkdirTemp(Scratch(), "shards-")
	if err != nil {
		panic(err)
	}
	var res ShardsResult
	var mu sync.Mutex
	var wg sync.WaitGroup
	for s := 0; s < nshards; s++ {
		wg.Add(1)
		go func(s int) {
			defer wg.Done()
			start := 0
			for attempt := 0; attempt < 3; attempt++ {
				logp := filepath.Join(dir, fmt.Sprintf("log-%d-%d.txt", s, attempt))
				lf, _ := os.Create(logp)
				cmd := exec.Command(os.Args[0], "-test.run", "^"+testName+"$", "-test.timeout", "0")
				cmd.Env = append(append(os.Environ(), extraEnv...),
					fmt.Sprintf("VERIF_CHILD=%d/%d/%d/%d", s, nshards, start, total), "VERIF_CHILD_DIR="+dir, "GOTRACEBACK=all")
				cmd.Stdout, cmd.Stderr = lf, lf
				cmd.SysProcAttr = &syscall.SysProcAttr{Setpgid: true}
				_ = os.Remove(filepath.Join(dir, fmt.Sprintf("cur-%d", s)))
				if err := cmd.Start(); err != nil {
					panic(err)
				}
				done := make(chan error, 1)
				go func() { done <- cmd.Wait() }()
				hang := false
				var werr error
				select {
				case werr = <-done:
				case <-time.After(perChild):
					hang = true
					_ = cmd.Process.Signal(syscall.SIGQUIT)
					select {
					case werr = <-done:
					case <-time.After(20 * time.Second):
						_ = cmd.Process.Kill()
						werr = <-done
					}
				}
				lf.Close()
				if werr == nil && !hang && shardDone(dir, s) {
					return
				}
				// died: identify the case
				cr := Crash{Shard: s, Index: -1, Log: logp, Hang: hang}
				if b, err := os.ReadFile(filepath.Join(dir, fmt.Sprintf("cur-%d", s))); err == nil {
					for i, c := range b {
						if c == '\n' {
							cr.Index, _ = strconv.Atoi(string(b[:i]))
							cr.Input = b[i+1:]
							break
						}
					}
				}
				mu.Lock()
				res.Crashes = append(res.Crashes, cr)
				mu.Unlock()
				if cr.Index < 0 {
					return // died before the first case: do not loop
				}
				start = cr.Index + 1
			}
		}(s)
	}
	wg.Wait()
	for s := 0; s < nshards; s++ {
		f, err := os.Open(filepath.Join(dir, fmt.Sprintf("out-%d.jsonl", s)))
		if err != nil {
			continue
		}
		sc := bufio.NewScanner(f)
		sc.Buffer(make([]byte, 1<<20), 64<<20)
		for sc.Scan() {
			res.Records = append(res.Records, json.RawMessage(append([]byte{}, sc.Bytes()...)))
		}
		f.Close()
	}
	return res
}

func shardDone(dir string, s int) bool {
	b, err := os.ReadFile(filepath.Join(dir, fmt.Sprintf("out-%d.jsonl", s)))
	if err != nil {
		return false
	}
	var last struct{ Kind string }
	lines := 0
	for i := len(b) - 1; i >= 0; i-- {
		if b[i] == '\n' {
			lines++
			if lines == 2 || i == 0 {
				_ = json.Unmarshal(b[i+1:], &last)
				break
			}
		}
	}
	if lines < 2 {
		_ = json.Unmarshal(b, &last)
	}
	return last.Kind == "done"
}
