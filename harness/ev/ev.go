// Package ev holds the machinery shared by all property monitors: the
// seed-derived PRNG, the evidence / replay writers, the known-findings
// classifier table, and verdict bookkeeping (violated / held / inconclusive).
package ev

import (
	"encoding/json"
	"flag"
	"fmt"
	"hash/fnv"
	"os"
	"path/filepath"
	"sort"
	"strconv"
	"sync"
	"testing"
	"time"
)

// Root returns the /verif directory (VERIF_ROOT, set by the driver).
func Root() string {
	if r := os.Getenv("VERIF_ROOT"); r != "" {
		return r
	}
	return "/verif"
}

// Out returns the directory under which evidence/ and replay/ are written
// (VERIF_OUT; defaults to Root()). Only the mutant self-test sets it.
func Out() string {
	if r := os.Getenv("VERIF_OUT"); r != "" {
		return r
	}
	return Root()
}

// Repo returns the path of the google/mtail tree under test.
func Repo() string {
	if r := os.Getenv("VERIF_REPO"); r != "" {
		return r
	}
	return "/repo"
}

// Scratch returns the per-run scratch directory (removed by the driver).
func Scratch() string {
	if r := os.Getenv("VERIF_SCRATCH"); r != "" {
		return r
	}
	return os.TempDir()
}

func Seed() int64 {
	if s := os.Getenv("VERIF_SEED"); s != "" {
		if v, err := strconv.ParseInt(s, 10, 64); err == nil {
			return v
		}
	}
	return 1
}

func Tier() string {
	if os.Getenv("VERIF_TIER") == "thorough" {
		return "thorough"
	}
	return "quick"
}

// Thorough reports whether the thorough tier was requested.
func Thorough() bool { return Tier() == "thorough" }

// Pick returns q in the quick tier and th in the thorough tier.
func Pick(q, th int) int {
	if Thorough() {
		return th
	}
	return q
}

// QuietGlog points glog away from stderr and /tmp.
func QuietGlog() {
	dir := filepath.Join(Scratch(), "glog")
	_ = os.MkdirAll(dir, 0o755)
	_ = flag.Set("logtostderr", "false")
	_ = flag.Set("alsologtostderr", "false")
	_ = flag.Set("stderrthreshold", "FATAL")
	_ = flag.Set("log_dir", dir)
}

// ---------------------------------------------------------------------
// PRNG: splitmix64, deterministic from (seed, stream name).

type RNG struct{ s uint64 }

func NewRNG(seed int64, stream string) *RNG {
	h := fnv.New64a()
	h.Write([]byte(stream))
	r := &RNG{s: uint64(seed)*0x9E3779B97F4A7C15 ^ h.Sum64()}
	r.U64()
	return r
}

// Sub derives an independent generator (e.g. one per case index).
func (r *RNG) Sub(i int) *RNG {
	n := &RNG{s: r.s ^ (uint64(i)+1)*0xD1342543DE82EF95}
	n.U64()
	return n
}

func (r *RNG) U64() uint64 {
	r.s += 0x9E3779B97F4A7C15
	z := r.s
	z = (z ^ (z >> 30)) * 0xBF58476D1CE4E5B9
	z = (z ^ (z >> 27)) * 0x94D049BB133111EB
	return z ^ (z >> 31)
}

func (r *RNG) Intn(n int) int {
	if n <= 0 {
		return 0
	}
	return int(r.U64() % uint64(n))
}
func (r *RNG) Bool() bool             { return r.U64()&1 == 1 }
func (r *RNG) Chance(p float64) bool  { return r.Float() < p }
func (r *RNG) Float() float64         { return float64(r.U64()>>11) / (1 << 53) }
func (r *RNG) Range(lo, hi int) int   { return lo + r.Intn(hi-lo+1) }
func PickOne[T any](r *RNG, xs []T) T { return xs[r.Intn(len(xs))] }

// ---------------------------------------------------------------------
// Known findings.

type Finding struct {
	Property  string `json:"property"`
	ID        string `json:"id"`
	Status    string `json:"status"` // "known" | "fixed"
	Signature string `json:"signature"`
	What      string `json:"what"`
	Commit    string `json:"commit,omitempty"`
}

func loadFindings() map[string]Finding {
	out := map[string]Finding{}
	b, err := os.ReadFile(filepath.Join(Root(), "known_findings.json"))
	if err != nil {
		return out
	}
	var fs struct {
		Findings []Finding `json:"findings"`
	}
	if json.Unmarshal(b, &fs) != nil {
		return out
	}
	for _, f := range fs.Findings {
		out[f.ID] = f
	}
	return out
}

// ---------------------------------------------------------------------
// Run: verdict + evidence of one check run.

type Run struct {
	mu         sync.Mutex
	t          testing.TB
	ID         string
	Level      string
	start      time.Time
	evals      int64
	distinct   map[uint64]struct{}
	samples    []any
	counters   map[string]int64
	extra      map[string]any
	assume     []string
	rule       string
	viol       int
	violClass  map[string]int
	knownSeen  map[string]int
	inconc     []string
	findings   map[string]Finding
	exhaustive *bool
}

func Start(t testing.TB, id, level string) *Run {
	QuietGlog()
	r := &Run{t: t, ID: id, Level: level, start: time.Now(),
		distinct: map[uint64]struct{}{}, counters: map[string]int64{},
		extra: map[string]any{}, violClass: map[string]int{}, knownSeen: map[string]int{},
		findings: loadFindings()}
	_ = os.RemoveAll(r.replayDir())
	return r
}

func (r *Run) replayDir() string { return filepath.Join(Out(), "replay", r.ID) }

func (r *Run) Rule(s string)      { r.mu.Lock(); r.rule = s; r.mu.Unlock() }
func (r *Run) Assume(s ...string) { r.mu.Lock(); r.assume = append(r.assume, s...); r.mu.Unlock() }
func (r *Run) Eval(n int)         { r.mu.Lock(); r.evals += int64(n); r.mu.Unlock() }
func (r *Run) Count(k string, n int) {
	r.mu.Lock()
	r.counters[k] += int64(n)
	r.mu.Unlock()
}
func (r *Run) Get(k string) int64  { r.mu.Lock(); defer r.mu.Unlock(); return r.counters[k] }
func (r *Run) Set(k string, v any) { r.mu.Lock(); r.extra[k] = Safe(v); r.mu.Unlock() }

// Safe returns x if it can be marshalled to JSON, else its %+v rendering
// (non-finite floats, channels, ...).
func Safe(x any) any {
	if b, err := json.Marshal(x); err == nil {
		return json.RawMessage(b)
	}
	return fmt.Sprintf("%+v", x)
}
func (r *Run) Exhaustive(b bool)   { r.mu.Lock(); r.exhaustive = &b; r.mu.Unlock() }

// Distinct records one non-trivial case identified by key.
func (r *Run) Distinct(key string) {
	h := fnv.New64a()
	h.Write([]byte(key))
	r.mu.Lock()
	r.distinct[h.Sum64()] = struct{}{}
	r.mu.Unlock()
}

// Sample keeps up to 6 written-out cases.
func (r *Run) Sample(x any) {
	r.mu.Lock()
	if len(r.samples) < 6 {
		r.samples = append(r.samples, Safe(x))
	}
	r.mu.Unlock()
}

// Violation records a refuting observation; witness is written to a replay file.
// At most 5 VIOLATION lines are printed per class.
func (r *Run) Violation(class string, witness any) {
	r.mu.Lock()
	defer r.mu.Unlock()
	r.viol++
	r.violClass[class]++
	if r.violClass[class] > 3 || len(r.violClass) > 8 && r.violClass[class] > 1 {
		return
	}
	_ = os.MkdirAll(r.replayDir(), 0o755)
	p := filepath.Join(r.replayDir(), fmt.Sprintf("%s-%d.json", sanitize(class), r.violClass[class]))
	b, err := json.MarshalIndent(map[string]any{"property": r.ID, "class": class, "seed": Seed(), "tier": Tier(), "witness": Safe(witness)}, "", " ")
	if err != nil {
		b = []byte(fmt.Sprintf("%q", fmt.Sprint(witness)))
	}
	_ = os.WriteFile(p, b, 0o644)
	fmt.Printf("VIOLATION property=%s replay=%s class=%s\n", r.ID, p, class)
}

// Known reports a witness matched by the classifier of known finding id. If
// the id is not listed as "known" in known_findings.json it is a violation.
func (r *Run) Known(id string, witness any) {
	r.mu.Lock()
	f, ok := r.findings[id]
	if ok && f.Status == "known" && f.Property == r.ID {
		r.knownSeen[id]++
		first := r.knownSeen[id] == 1
		r.mu.Unlock()
		if first {
			fmt.Printf("KNOWN-FINDING: property=%s %s: %s\n", r.ID, id, f.What)
			r.Set("known_finding_sample_"+id, witness)
		}
		return
	}
	r.mu.Unlock()
	r.Violation(id, witness)
}

func (r *Run) Inconclusive(reason string) {
	r.mu.Lock()
	r.inconc = append(r.inconc, reason)
	r.mu.Unlock()
	fmt.Printf("INCONCLUSIVE property=%s reason=%s\n", r.ID, reason)
}

func (r *Run) Violations() int { r.mu.Lock(); defer r.mu.Unlock(); return r.viol }

// Floor makes the run inconclusive when counter k stayed below min.
func (r *Run) Floor(k string, min int64) {
	if v := r.Get(k); v < min {
		r.Inconclusive(fmt.Sprintf("%s=%d below floor %d", k, v, min))
	}
}

func sanitize(s string) string {
	b := []byte(s)
	for i, c := range b {
		if !(c >= 'a' && c <= 'z' || c >= 'A' && c <= 'Z' || c >= '0' && c <= '9' || c == '-' || c == '_') {
			b[i] = '_'
		}
	}
	if len(b) > 60 {
		b = b[:60]
	}
	return string(b)
}

// Finish writes the evidence file and sets the test outcome.
func (r *Run) Finish() {
	r.mu.Lock()
	cov := map[string]any{
		"evaluations":         r.evals,
		"distinct_nontrivial": len(r.distinct),
		"rule":                r.rule,
		"samples":             r.samples,
	}
	if r.exhaustive != nil {
		cov["exhaustive"] = *r.exhaustive
	}
	keys := make([]string, 0, len(r.counters))
	for k := range r.counters {
		keys = append(keys, k)
	}
	sort.Strings(keys)
	obs := map[string]int64{}
	for _, k := range keys {
		obs[k] = r.counters[k]
	}
	cov["observed"] = obs
	for k, v := range r.extra {
		cov[k] = v
	}
	if len(r.inconc) > 0 {
		cov["inconclusive"] = r.inconc
	}
	if len(r.knownSeen) > 0 {
		cov["known_findings_seen"] = r.knownSeen
	}
	if len(r.violClass) > 0 {
		cov["violation_classes"] = r.violClass
	}
	if len(r.samples) == 0 {
		cov["samples"] = []any{"(none)"}
	}
	e := map[string]any{
		"property_id": r.ID, "tier": Tier(), "seed": Seed(), "level": r.Level,
		"coverage": cov, "assumptions": r.assume,
		"wall_s": time.Since(r.start).Seconds(), "violations": r.viol,
	}
	if r.assume == nil {
		e["assumptions"] = []string{}
	}
	viol, inc := r.viol, len(r.inconc)
	r.mu.Unlock()
	b, err := json.MarshalIndent(e, "", " ")
	if err != nil {
		r.t.Fatalf("evidence marshal: %v", err)
	}
	_ = os.MkdirAll(filepath.Join(Out(), "evidence"), 0o755)
	if err := os.WriteFile(filepath.Join(Out(), "evidence", r.ID+".json"), b, 0o644); err != nil {
		r.t.Fatalf("evidence write: %v", err)
	}
	fmt.Printf("SUMMARY property=%s tier=%s seed=%d evaluations=%d distinct_nontrivial=%d violations=%d inconclusive=%d wall_s=%.1f\n",
		r.ID, Tier(), Seed(), r.evals, len(r.distinct), viol, inc, time.Since(r.start).Seconds())
	if viol > 0 {
		r.t.Errorf("%d violations", viol)
	} else if inc > 0 {
		r.t.Errorf("inconclusive: %d reasons", inc)
	}
}

// Parallel runs f(i) for i in [0,n) on up to GOMAXPROCS workers.
func Parallel(n, workers int, f func(i int)) {
	if workers < 1 {
		workers = 1
	}
	var wg sync.WaitGroup
	ch := make(chan int, 64)
	for w := 0; w < workers; w++ {
		wg.Add(1)
		go func() {
			defer wg.Done()
			for i := range ch {
				f(i)
			}
		}()
	}
	for i := 0; i < n; i++ {
		ch <- i
	}
	close(ch)
	wg.Wait()
}
