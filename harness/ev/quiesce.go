package ev

import (
	"regexp"
	"runtime"
	"strings"
	"time"
)

var activeHdr = regexp.MustCompile(`^goroutine \d+ \[(running|runnable)[,\]]`)

// AwaitOrQuiescent waits for done. A step that takes long is not a verdict:
// after grace, the goroutines are sampled every 5 s, and the step is declared
// stuck only when, in four consecutive samples, no goroutine with mtail (or
// regexp) frames is running or runnable (idle accept loops sit in "IO wait") and progress()
// (a monotone counter of work done, e.g. lines processed) has not moved — a
// quiescent system that has not finished. Returns "" when done arrived,
// "stuck" with the last goroutine dump, or "inconclusive" after cap.
func AwaitOrQuiescent(done <-chan struct{}, grace, cap time.Duration, progress func() int64) (verdict, goroutines string) {
	select {
	case <-done:
		return "", ""
	case <-time.After(grace):
	}
	deadline := time.Now().Add(cap)
	quiet, last := 0, progress()
	for time.Now().Before(deadline) {
		select {
		case <-done:
			return "", ""
		case <-time.After(5 * time.Second):
		}
		buf := make([]byte, 16<<20)
		buf = buf[:runtime.Stack(buf, true)]
		active := false
		for _, g := range strings.Split(string(buf), "\n\n") {
			if activeHdr.MatchString(g) && (strings.Contains(g, "github.com/google/mtail/internal/") || strings.Contains(g, "\nregexp.")) {
				active = true
				break
			}
		}
		if p := progress(); p != last {
			last, active = p, true
		}
		if active {
			quiet = 0
			continue
		}
		quiet++
		if quiet >= 4 {
			return "stuck", string(buf)
		}
	}
	return "inconclusive", ""
}
