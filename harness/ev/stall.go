package ev

import (
	"fmt"
	"os"
	"regexp"
	"runtime"
	"strings"
	"time"
)

// StallLimit is how long a step the property says must complete may take
// before the goroutines are examined. It is not a verdict by itself.
const StallLimit = 150 * time.Second

var blockedHdr = regexp.MustCompile(`^goroutine \d+ \[((?:semacquire|sync\.\w+\.\w+|chan receive|chan send|select|sync\.Cond\.Wait)[^,\]]*), (\d+) minutes\]`)

// Guard runs step (which the property says terminates) and returns when it
// does. If it has not returned after StallLimit the goroutines are dumped and
// the verdict is structural, not temporal: goroutines inside mtail code that
// have sat in one blocking operation (lock, channel, condition) for the last
// >= 2 minutes while the only thing the harness was doing was waiting for
// them are reported as a stall violation with their stacks as the witness;
// when there are none (slow machine, still running) the run is inconclusive.
// Either way the process ends: the stuck step cannot be unwound.
//
// Lock waits count wherever they are; channel/condition waits only count in
// goroutines whose stack contains one of alsoIdle (frames that must not be
// idle any more once step has been running for minutes, e.g. a VM's run loop
// after the runtime's input was closed) — idle service loops are legitimate.
func (r *Run) Guard(what string, step func(), alsoIdle ...string) {
	done := make(chan struct{})
	go func() {
		defer close(done)
		step()
	}()
	// The runtime stamps a blocked goroutine's wait start at the first GC that
	// finds it waiting, so one is forced early; "N minutes" in the dump below
	// then means: blocked in that one operation since at least that GC.
	select {
	case <-done:
		return
	case <-time.After(10 * time.Second):
		runtime.GC()
	}
	select {
	case <-done:
		return
	case <-time.After(StallLimit - 10*time.Second):
	}
	buf := make([]byte, 64<<20)
	buf = buf[:runtime.Stack(buf, true)]
	_ = os.MkdirAll(r.replayDir(), 0o755)
	_ = os.WriteFile(r.replayDir()+"/stall-goroutines.txt", buf, 0o644)
	var blocked []string
	for _, g := range strings.Split(string(buf), "\n\n") {
		m := blockedHdr.FindStringSubmatch(g)
		if m == nil || !strings.Contains(g, "github.com/google/mtail/internal/") {
			continue
		}
		if lock := strings.HasPrefix(m[1], "semacquire") || strings.HasSuffix(m[1], "Lock"); !lock {
			hit := false
			for _, a := range alsoIdle {
				hit = hit || strings.Contains(g, a)
			}
			if !hit {
				continue
			}
		}
		if len(g) > 3000 {
			g = g[:3000] + "\n..."
		}
		blocked = append(blocked, g)
	}
	if len(blocked) > 0 {
		if len(blocked) > 12 {
			blocked = blocked[:12]
		}
		r.Violation("stalled", map[string]any{
			"step":               what,
			"waited_s":           StallLimit.Seconds(),
			"blocked_goroutines": blocked,
			"what":               fmt.Sprintf("%s did not complete: %d goroutine(s) in mtail code have been blocked in one lock/channel operation for >= 2 minutes", what, len(blocked)),
		})
	} else {
		r.Inconclusive(fmt.Sprintf("%s did not complete within %v but no mtail goroutine was found blocked for minutes", what, StallLimit))
	}
	r.Finish()
	os.Exit(1)
}
