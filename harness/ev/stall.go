package ev

import (
	"fmt"
	"os"
	"regexp"
	"runtime"
	"strings"
	"time"
)

// StallLimit is how long a step the property says must complete may take
// before the goroutines are examined. It is not a verdict by itself.
const StallLimit = 150 * time.Second

var blockedHdr = regexp.MustCompile(`^goroutine \d+ \[((?:semacquire|sync\.\w+\.\w+|chan receive|chan send|select|sync\.Cond\.Wait)[^,\]]*), (\d+) minutes\]`)

// Guard runs step (which the property says terminates) and returns when it
// does. If it has not returned after StallLimit the goroutines are dumped and
// the verdict is structural, not temporal: goroutines inside mtail code that
// have sat in one blocking operation (lock, channel, condition) for the last
// >= 2 minutes while the only thing the harness was doing was waiting for
// them are reported as a stall violation with their stacks as the witness
// (the process then ends: the stuck step cannot be unwound); when there are
// none (slow machine, still running) the step is given another StallLimit, up
// to StallRounds of them, after which the run is inconclusive.
//
// Lock waits count wherever they are; channel/condition waits only count in
// goroutines whose stack contains one of alsoIdle (frames that must not be
// idle any more once step has been running for minutes, e.g. a VM's run loop
// after the runtime's input was closed) — idle service loops are legitimate.
func (r *Run) Guard(what string, step func(), alsoIdle ...string) {
	done := make(chan struct{})
	go func() {
		defer close(done)
		step()
	}()
	// The runtime stamps a blocked goroutine's wait start at the first GC that
	// finds it waiting, so one is forced early in every round; "N minutes" in
	// the dump then means: blocked in that one operation since at least then.
	for round := 0; round < StallRounds; round++ {
		select {
		case <-done:
			return
		case <-time.After(10 * time.Second):
			runtime.GC()
		}
		select {
		case <-done:
			return
		case <-time.After(StallLimit - 10*time.Second):
		}
		if blocked := blockedGoroutines(r, alsoIdle); len(blocked) > 0 {
			r.Violation("stalled", map[string]any{
				"step":               what,
				"waited_s":           (time.Duration(round+1) * StallLimit).Seconds(),
				"blocked_goroutines": blocked,
				"what":               fmt.Sprintf("%s did not complete: %d goroutine(s) in mtail code have been blocked in one lock/channel operation for >= 2 minutes", what, len(blocked)),
			})
			r.Finish()
			os.Exit(1)
		}
		// nothing is stuck on a lock: slow (loaded machine), keep waiting
	}
	r.Inconclusive(fmt.Sprintf("%s did not complete within %v but no mtail goroutine was found blocked for minutes", what, time.Duration(StallRounds)*StallLimit))
	r.Finish()
	os.Exit(1)
}

// StallRounds bounds how often a slow but not stuck step is given another StallLimit.
const StallRounds = 8

// blockedGoroutines dumps all goroutines (also to replay/<ID>/stall-goroutines.txt)
// and returns those with mtail frames that have been in one blocking operation
// for minutes: waits for a sync.Mutex / sync.RWMutex wherever they are, and
// channel / condition waits in goroutines whose stack contains one of alsoIdle.
// WaitGroup waits and idle service loops are legitimate and never count.
func blockedGoroutines(r *Run, alsoIdle []string) []string {
	buf := make([]byte, 64<<20)
	buf = buf[:runtime.Stack(buf, true)]
	_ = os.MkdirAll(r.replayDir(), 0o755)
	_ = os.WriteFile(r.replayDir()+"/stall-goroutines.txt", buf, 0o644)
	var blocked []string
	for _, g := range strings.Split(string(buf), "\n\n") {
		m := blockedHdr.FindStringSubmatch(g)
		if m == nil || !strings.Contains(g, "github.com/google/mtail/internal/") {
			continue
		}
		lock := strings.Contains(g, "sync.(*RWMutex).") || strings.Contains(g, "sync.(*Mutex).Lock")
		if strings.Contains(g, "sync.(*WaitGroup).Wait") {
			lock = false
		}
		if !lock {
			hit := false
			if !strings.Contains(g, "sync.(*WaitGroup).Wait") {
				for _, a := range alsoIdle {
					hit = hit || strings.Contains(g, a)
				}
			}
			if !hit {
				continue
			}
		}
		if len(g) > 3000 {
			g = g[:3000] + "\n..."
		}
		blocked = append(blocked, g)
	}
	if len(blocked) > 12 {
		blocked = blocked[:12]
	}
	return blocked
}
