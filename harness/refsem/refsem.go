// Package refsem is an independent tree-walking reference interpreter of the
// mtail language over the harness's own AST (package gen), written from
// docs/Language.md. It shares no code with mtail.
package refsem

import (
	"fmt"
	"math"
	"regexp"
	"strconv"
	"strings"
	"time"

	"github.com/google/mtail/verif/gen"
)

type Value struct {
	T gen.Type
	I int64
	F float64
	S string
	B bool
}

func (v Value) String() string {
	switch v.T {
	case gen.TInt:
		return strconv.FormatInt(v.I, 10)
	case gen.TFloat:
		return strconv.FormatFloat(v.F, 'g', -1, 64)
	case gen.TString:
		return strconv.Quote(v.S)
	}
	return strconv.FormatBool(v.B)
}

type Datum struct {
	Keys    []string
	V       Value
	Written bool // false: only referenced (read / created by an aborted write)
	Expiry  time.Duration
	Obs     []float64 // histogram observations
	TimeSet bool      // last write happened with the time register set
	Time    int64     // unix seconds of the time register at the last write
}

type MetricState struct {
	M    *gen.Metric
	Data []*Datum
}

func key(ks []string) string {
	var b strings.Builder
	for _, k := range ks {
		fmt.Fprintf(&b, "%d:%s,", len(k), k)
	}
	return b.String()
}

func (ms *MetricState) Find(ks []string) *Datum {
	k := key(ks)
	for _, d := range ms.Data {
		if key(d.Keys) == k {
			return d
		}
	}
	return nil
}

func (ms *MetricState) remove(ks []string) {
	k := key(ks)
	for i, d := range ms.Data {
		if key(d.Keys) == k {
			ms.Data = append(ms.Data[:i:i], ms.Data[i+1:]...)
			return
		}
	}
}

type Interp struct {
	P     *gen.Program
	State []*MetricState
	// ElseSharesFlag selects the implementation's behaviour (finding C01-a):
	// an else block does not get a matched flag of its own.
	ElseSharesFlag bool
	Loc            *time.Location
	res            map[*gen.Pattern]*regexp.Regexp
	sres           map[string]*regexp.Regexp

	// per line
	line, filename string
	caps           map[*gen.Pattern][]string
	flag           bool
	taint          bool // see Cond/else below
	timeSet        bool
	timeVal        time.Time
	err            bool
	ErrMsg         string
	stopped        bool
	// Unspecified is set when the line needed behaviour the reference does
	// not define (NaN ordering); the case must then be abandoned.
	Unspecified string
	Trace       map[string]int
	decoStack      [][]gen.Stmt
}

func New(p *gen.Program) *Interp {
	in := &Interp{P: p, res: map[*gen.Pattern]*regexp.Regexp{}, sres: map[string]*regexp.Regexp{}, Trace: map[string]int{}}
	for _, m := range p.Metrics {
		ms := &MetricState{M: m}
		if len(m.Keys) == 0 && m.Kind == "counter" {
			ms.Data = append(ms.Data, &Datum{V: zero(m.Type), Written: true})
		}
		if len(m.Keys) == 0 && m.Kind == "histogram" {
			// allocated at load by the implementation; the reference does not say, so optional
			ms.Data = append(ms.Data, &Datum{V: zero(m.Type)})
		}
		in.State = append(in.State, ms)
	}
	return in
}

func zero(t gen.Type) Value { return Value{T: t} }

type abort struct{}

func (in *Interp) fail(format string, a ...any) {
	in.err = true
	in.ErrMsg = fmt.Sprintf(format, a...)
	panic(abort{})
}

// Line runs the program on one line; returns whether a runtime error occurred.
func (in *Interp) Line(filename, line string) (errored bool) {
	in.line, in.filename = line, filename
	in.caps = map[*gen.Pattern][]string{}
	in.flag = false
	in.taint = false
	in.Unspecified = ""
	in.timeSet = false
	in.err = false
	in.ErrMsg = ""
	in.stopped = false
	in.decoStack = nil
	defer func() {
		if r := recover(); r != nil {
			if _, ok := r.(abort); !ok {
				panic(r)
			}
		}
		errored = in.err
	}()
	in.block(in.P.Stmts)
	return
}

type stop struct{}

func (in *Interp) block(ss []gen.Stmt) {
	for _, s := range ss {
		in.stmt(s)
	}
}

func (in *Interp) keyStrings(ks []gen.Expr) []string {
	out := make([]string, len(ks))
	for i, k := range ks {
		v := in.eval(k)
		switch v.T {
		case gen.TInt:
			out[i] = strconv.FormatInt(v.I, 10)
		case gen.TFloat:
			out[i] = fmt.Sprintf("%g", v.F)
		default:
			out[i] = v.S
		}
	}
	return out
}

func (in *Interp) ref(m *gen.Metric, ks []string) *Datum {
	ms := in.State[m.Index]
	d := ms.Find(ks)
	if d == nil {
		d = &Datum{Keys: ks, V: zero(m.Type)}
		ms.Data = append(ms.Data, d)
	}
	return d
}

func (in *Interp) write(d *Datum, v Value) {
	d.V = v
	d.Written = true
	d.TimeSet = in.timeSet
	if in.timeSet {
		d.Time = in.timeVal.Unix()
	}
}

func (in *Interp) stmt(s gen.Stmt) {
	switch n := s.(type) {
	case *gen.Cond:
		if in.truth(n.C) {
			in.Trace["cond-taken"]++
			savedTaint := in.taint
			in.flag, in.taint = false, false
			in.block(n.Then)
			in.flag, in.taint = true, savedTaint
		} else if n.HasElse {
			in.Trace["else-taken"]++
			if in.ElseSharesFlag {
				in.block(n.Else)
			} else {
				saved, savedTaint := in.flag, in.taint
				in.flag, in.taint = false, false
				in.block(n.Else)
				inner := in.flag || in.taint // a match anywhere inside, also in nested else branches
				in.flag, in.taint = saved, savedTaint
				if inner && !saved {
					// a conditional inside the else branch matched: whether that
					// counts as "a preceding conditional in this scope matched"
					// for a later `otherwise` is not specified
					in.taint = true
				}
			}
		}
	case *gen.Otherwise:
		if !in.flag && in.taint && !in.ElseSharesFlag {
			in.Unspecified = "otherwise after an else branch in which a conditional matched"
		}
		if !in.flag {
			in.Trace["otherwise-taken"]++
			savedTaint := in.taint
			in.flag, in.taint = false, false
			in.block(n.Body)
			in.flag, in.taint = true, savedTaint
		}
	case *gen.Assign:
		ks := in.keyStrings(n.Keys)
		d := in.ref(n.M, ks)
		if n.M.Kind == "histogram" {
			v := in.eval(n.E)
			f := v.F
			if v.T == gen.TInt {
				f = float64(v.I)
			}
			d.Obs = append(d.Obs, f)
			in.write(d, d.V)
			in.Trace["observe"]++
			return
		}
		if n.Op == "=" {
			v := in.eval(n.E)
			in.write(d, v)
			in.Trace["assign"]++
			return
		}
		v := in.eval(n.E)
		// the datum may have been deleted by... no: expressions have no side effects
		old := d.V
		switch n.M.Type {
		case gen.TInt:
			in.write(d, Value{T: gen.TInt, I: old.I + v.I})
		case gen.TFloat:
			in.write(d, Value{T: gen.TFloat, F: old.F + v.F})
		case gen.TString:
			in.write(d, Value{T: gen.TString, S: old.S + v.S})
		}
		in.Trace["add-assign"]++
	case *gen.IncDec:
		ks := in.keyStrings(n.Keys)
		d := in.ref(n.M, ks)
		if n.Op == "++" {
			in.write(d, Value{T: gen.TInt, I: d.V.I + 1})
		} else {
			in.write(d, Value{T: gen.TInt, I: d.V.I - 1})
		}
		in.Trace["incdec"]++
	case *gen.Del:
		ks := in.keyStrings(n.Keys)
		ms := in.State[n.M.Index]
		if n.After > 0 {
			d := ms.Find(ks)
			if d == nil {
				in.fail("del after on absent datum %q", ks)
			}
			d.Expiry = n.After
			in.Trace["del-after"]++
			return
		}
		ms.remove(ks)
		in.Trace["del"]++
	case *gen.Stop:
		in.Trace["stop"]++
		in.stopped = true
		panic(abort{})
	case *gen.Next:
		in.Trace["next"]++
		top := len(in.decoStack) - 1
		body := in.decoStack[top]
		in.decoStack = in.decoStack[:top]
		in.block(body)
		in.decoStack = append(in.decoStack, body)
	case *gen.Deco:
		in.Trace["deco"]++
		in.decoStack = append(in.decoStack, n.Body)
		in.block(n.Def.Body)
		in.decoStack = in.decoStack[:len(in.decoStack)-1]
	case *gen.ExprStmt:
		in.eval(n.E)
		in.Trace["exprstmt"]++
	default:
		panic(fmt.Sprintf("refsem: unknown stmt %T", s))
	}
}

func (in *Interp) truth(e gen.Expr) bool {
	v := in.eval(e)
	if v.T != gen.TBool {
		panic(fmt.Sprintf("refsem: condition of type %v", v.T))
	}
	return v.B
}

func (in *Interp) re(p *gen.Pattern) *regexp.Regexp {
	if r, ok := in.res[p]; ok {
		return r
	}
	r := regexp.MustCompile(p.Regex)
	in.res[p] = r
	return r
}

func b2v(b bool) Value { return Value{T: gen.TBool, B: b} }

func ipow(a, b int64) int64 {
	r := int64(1)
	for i := int64(0); i < b; i++ {
		r *= a
	}
	return r
}

func (in *Interp) eval(e gen.Expr) Value {
	switch n := e.(type) {
	case *gen.IntLit:
		return Value{T: gen.TInt, I: n.V}
	case *gen.FloatLit:
		return Value{T: gen.TFloat, F: n.V}
	case *gen.StrLit:
		return Value{T: gen.TString, S: n.S}
	case *gen.Capref:
		m := in.caps[n.Pat]
		if m == nil || n.Idx >= len(m) {
			in.fail("capture group $%d of a pattern that did not match", n.Idx)
		}
		s := m[n.Idx]
		switch n.T {
		case gen.TInt:
			i, err := strconv.ParseInt(s, 10, 64)
			if err != nil {
				in.fail("int conversion of %q: %v", s, err)
			}
			return Value{T: gen.TInt, I: i}
		case gen.TFloat:
			f, err := strconv.ParseFloat(s, 64)
			if err != nil {
				in.fail("float conversion of %q: %v", s, err)
			}
			return Value{T: gen.TFloat, F: f}
		}
		return Value{T: gen.TString, S: s}
	case *gen.MetricRead:
		ks := in.keyStrings(n.Keys)
		d := in.ref(n.M, ks)
		in.Trace["metric-read"]++
		return d.V
	case *gen.IncExpr:
		ks := in.keyStrings(n.Keys)
		d := in.ref(n.M, ks)
		nv := Value{T: gen.TInt, I: d.V.I + 1}
		if n.Op == "--" {
			nv.I = d.V.I - 1
		}
		in.write(d, nv)
		in.Trace["inc-expr"]++
		return nv
	case *gen.BitNot:
		v := in.eval(n.E)
		return Value{T: gen.TInt, I: ^v.I}
	case *gen.PatCond:
		m := in.re(n.Pat).FindStringSubmatch(in.line)
		in.caps[n.Pat] = m
		return b2v(m != nil)
	case *gen.Match:
		v := in.eval(n.E)
		m := in.re(n.Pat).FindStringSubmatch(v.S)
		in.caps[n.Pat] = m
		in.Trace["match-op"]++
		return b2v((m != nil) != n.Neg)
	case *gen.SubstRe:
		nw := in.eval(n.New)
		val := in.eval(n.Val)
		r, ok := in.sres[n.Re]
		if !ok {
			r = regexp.MustCompile(n.Re)
			in.sres[n.Re] = r
		}
		in.Trace["builtin-subst-re"]++
		return Value{T: gen.TString, S: r.ReplaceAllLiteralString(val.S, nw.S)}
	case *gen.Call:
		return in.call(n)
	case *gen.Bin:
		return in.bin(n)
	}
	panic(fmt.Sprintf("refsem: unknown expr %T", e))
}

func (in *Interp) call(n *gen.Call) Value {
	in.Trace["builtin-"+n.Name]++
	arg := func(i int) Value { return in.eval(n.Args[i]) }
	switch n.Name {
	case "len":
		return Value{T: gen.TInt, I: int64(len(arg(0).S))}
	case "tolower":
		return Value{T: gen.TString, S: strings.ToLower(arg(0).S)}
	case "subst":
		old, nw, val := arg(0), arg(1), arg(2)
		return Value{T: gen.TString, S: strings.ReplaceAll(val.S, old.S, nw.S)}
	case "strtol":
		s, b := arg(0), arg(1)
		if b.I <= 0 || b.I >= math.MaxInt32 {
			in.fail("strtol base %d out of range", b.I)
		}
		i, err := strconv.ParseInt(s.S, int(b.I), 64)
		if err != nil {
			in.fail("strtol(%q,%d): %v", s.S, b.I, err)
		}
		return Value{T: gen.TInt, I: i}
	case "int":
		v := arg(0)
		switch v.T {
		case gen.TInt:
			return v
		case gen.TString:
			i, err := strconv.ParseInt(v.S, 10, 64)
			if err != nil {
				in.fail("int(%q): %v", v.S, err)
			}
			return Value{T: gen.TInt, I: i}
		}
		panic("refsem: int() of " + v.T.String())
	case "float":
		v := arg(0)
		switch v.T {
		case gen.TFloat:
			return v
		case gen.TInt:
			return Value{T: gen.TFloat, F: float64(v.I)}
		case gen.TString:
			f, err := strconv.ParseFloat(v.S, 64)
			if err != nil {
				in.fail("float(%q): %v", v.S, err)
			}
			return Value{T: gen.TFloat, F: f}
		}
	case "string":
		v := arg(0)
		switch v.T {
		case gen.TString:
			return v
		case gen.TInt:
			return Value{T: gen.TString, S: strconv.FormatInt(v.I, 10)}
		case gen.TFloat:
			return Value{T: gen.TString, S: fmt.Sprintf("%g", v.F)}
		}
	case "getfilename":
		return Value{T: gen.TString, S: in.filename}
	case "settime":
		v := arg(0)
		in.timeSet = true
		in.timeVal = time.Unix(v.I, 0).UTC()
		return Value{}
	case "timestamp":
		if !in.timeSet {
			panic("refsem: timestamp() with the time register unset is unspecified")
		}
		return Value{T: gen.TInt, I: in.timeVal.Unix()}
	case "strptime":
		s, layout := arg(0), arg(1)
		var tm time.Time
		var err error
		if in.Loc != nil {
			tm, err = time.ParseInLocation(layout.S, s.S, in.Loc)
		} else {
			tm, err = time.Parse(layout.S, s.S)
		}
		if err != nil {
			in.fail("strptime(%q,%q): %v", s.S, layout.S, err)
		}
		in.timeSet = true
		in.timeVal = tm
		return Value{}
	}
	panic("refsem: unknown builtin " + n.Name)
}

func (in *Interp) bin(n *gen.Bin) Value {
	switch n.Op {
	case "&&":
		if !in.truth(n.L) {
			return b2v(false)
		}
		return b2v(in.truth(n.R))
	case "||":
		if in.truth(n.L) {
			return b2v(true)
		}
		return b2v(in.truth(n.R))
	}
	l := in.eval(n.L)
	r := in.eval(n.R)
	in.Trace["op"+n.Op]++
	switch n.Op {
	case "<", "<=", ">", ">=", "==", "!=":
		var c int // -1 0 1, 2 = unordered
		switch {
		case l.T == gen.TString && r.T == gen.TString:
			c = strings.Compare(l.S, r.S)
		case l.T == gen.TInt && r.T == gen.TInt:
			switch {
			case l.I < r.I:
				c = -1
			case l.I > r.I:
				c = 1
			}
		default:
			lf, rf := tof(l), tof(r)
			if math.IsNaN(lf) || math.IsNaN(rf) {
				in.Unspecified = "comparison with NaN"
			}
			switch {
			case lf < rf:
				c = -1
			case lf > rf:
				c = 1
			case lf == rf:
				c = 0
			default:
				c = 2
			}
		}
		switch n.Op {
		case "<":
			return b2v(c == -1)
		case "<=":
			return b2v(c == -1 || c == 0)
		case ">":
			return b2v(c == 1)
		case ">=":
			return b2v(c == 1 || c == 0)
		case "==":
			return b2v(c == 0)
		default:
			return b2v(c != 0)
		}
	case "&":
		return Value{T: gen.TInt, I: l.I & r.I}
	case "|":
		return Value{T: gen.TInt, I: l.I | r.I}
	case "^":
		return Value{T: gen.TInt, I: l.I ^ r.I}
	case "<<", ">>":
		if r.I < 0 || r.I >= math.MaxInt32 {
			in.fail("shift count %d out of range", r.I)
		}
		if n.Op == "<<" {
			return Value{T: gen.TInt, I: l.I << uint(r.I)}
		}
		return Value{T: gen.TInt, I: l.I >> uint(r.I)}
	}
	// arithmetic / concatenation
	if n.T == gen.TString {
		return Value{T: gen.TString, S: l.S + r.S}
	}
	if n.T == gen.TInt {
		switch n.Op {
		case "+":
			return Value{T: gen.TInt, I: l.I + r.I}
		case "-":
			return Value{T: gen.TInt, I: l.I - r.I}
		case "*":
			return Value{T: gen.TInt, I: l.I * r.I}
		case "/":
			if r.I == 0 {
				in.fail("integer division by zero")
			}
			return Value{T: gen.TInt, I: l.I / r.I}
		case "%":
			if r.I == 0 {
				in.fail("integer modulus by zero")
			}
			return Value{T: gen.TInt, I: l.I % r.I}
		case "**":
			return Value{T: gen.TInt, I: ipow(l.I, r.I)}
		}
	}
	lf, rf := tof(l), tof(r)
	switch n.Op {
	case "+":
		return Value{T: gen.TFloat, F: lf + rf}
	case "-":
		return Value{T: gen.TFloat, F: lf - rf}
	case "*":
		return Value{T: gen.TFloat, F: lf * rf}
	case "/":
		return Value{T: gen.TFloat, F: lf / rf}
	case "%":
		return Value{T: gen.TFloat, F: math.Mod(lf, rf)}
	case "**":
		return Value{T: gen.TFloat, F: math.Pow(lf, rf)}
	}
	panic("refsem: unknown op " + n.Op)
}

func tof(v Value) float64 {
	if v.T == gen.TInt {
		return float64(v.I)
	}
	return v.F
}
