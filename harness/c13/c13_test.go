// C13 — Prometheus exposition reflects the store exactly.
// Monitor: expected exposition computed from a store snapshot vs the parsed
// text output of both scrape paths (registry + promhttp handler as the server
// does it, and Exporter.Write as one-shot mode does it).
package c13

import (
	"bytes"
	"context"
	"fmt"
	"math"
	"net/http/httptest"
	"runtime"
	"sort"
	"strings"
	"sync"
	"sync/atomic"
	"testing"
	"time"
	"unicode/utf8"

	"github.com/google/mtail/internal/exporter"
	"github.com/google/mtail/internal/metrics"
	"github.com/google/mtail/internal/metrics/datum"
	"github.com/google/mtail/verif/ev"
	"github.com/prometheus/client_golang/prometheus"
	"github.com/prometheus/client_golang/prometheus/promhttp"
	dto "github.com/prometheus/client_model/go"
	"github.com/prometheus/common/expfmt"
)

type lset struct {
	Labels []string `json:"labels"`
	I      int64    `json:"i,omitempty"`
	F      string   `json:"f,omitempty"`
	f      float64
	S      string    `json:"s,omitempty"`
	Obs    []float64 `json:"observations,omitempty"`
	TS     int64     `json:"ts_unix_ms"`
}

type mspec struct {
	Name   string   `json:"name"`
	Prog   string   `json:"prog"`
	Kind   string   `json:"kind"`
	Type   string   `json:"type"`
	Keys   []string `json:"keys"`
	Sets   []lset   `json:"label_sets"`
	kind   metrics.Kind
	typ    metrics.Type
	bounds []float64
}

type spec struct {
	Metrics  []mspec `json:"metrics"`
	OmitProg bool    `json:"omit_prog_label"`
	EmitTS   bool    `json:"emit_timestamp"`
}

var goodLabelVals = []string{"", "a", "b", "x y", "quote\"d", "back\\slash", "new\nline", "é", "日本", "a=b,c", "{}", "-"}
var names = []string{"requests_total", "latency", "queue-length", "a", "b_c", "http-requests-by-code", "x1", "up"}
var progs = []string{"p1.mtail", "p2.mtail", "prog-3"}
var keyPool = []string{"code", "method", "host", "k_1"}
var floatsPool = []float64{0, 1, -1, 1.5, -2.25, 1e300, -1e300, math.MaxFloat64, math.SmallestNonzeroFloat64, 5e-324, math.Inf(1), math.Inf(-1), math.NaN(), 123456789.125}
var intsPool = []int64{0, 1, -1, 42, math.MaxInt64, math.MinInt64, 1 << 53, (1 << 53) + 1, -(1 << 40)}

func genSpec(g *ev.RNG, hostile bool) spec {
	s := spec{OmitProg: g.Intn(3) == 0, EmitTS: g.Bool()}
	nm := g.Intn(7)
	used := map[string]*mspec{} // name -> first metric of that name
	nameIdx := g.Intn(len(names))
	for i := 0; i < nm; i++ {
		var m mspec
		m.Name = names[(nameIdx+i)%len(names)]
		m.Prog = ev.PickOne(g, progs)
		if first, ok := used[m.Name]; ok || (i > 0 && g.Intn(4) == 0 && !s.OmitProg) {
			// same name in another program: same kind, type and keys (distinct by prog label)
			if !ok {
				first = &s.Metrics[g.Intn(len(s.Metrics))]
			}
			if s.OmitProg {
				continue
			}
			dup := false
			for _, o := range s.Metrics {
				if o.Name == first.Name && o.Prog == m.Prog {
					dup = true
				}
			}
			if dup {
				continue
			}
			m.Name, m.kind, m.typ, m.Keys, m.bounds = first.Name, first.kind, first.typ, first.Keys, first.bounds
			if g.Intn(5) == 0 && m.kind != metrics.Text {
				// same name, different key set in the other program (finding C13-b on the Write path)
				m.Keys = append([]string{fmt.Sprintf("extra%d", len(first.Keys))}, first.Keys...)
			}
		} else {
			m.kind = ev.PickOne(g, []metrics.Kind{metrics.Counter, metrics.Gauge, metrics.Timer, metrics.Text, metrics.Histogram, metrics.Counter, metrics.Gauge})
			switch m.kind {
			case metrics.Text:
				m.typ = metrics.String
			case metrics.Histogram:
				m.typ = metrics.Buckets
				m.bounds = ev.PickOne(g, [][]float64{{1, 2, 4}, {0.5, 10}, {0.001, 1, 1000, 1e6}})
			default:
				m.typ = ev.PickOne(g, []metrics.Type{metrics.Int, metrics.Int, metrics.Float, metrics.Float, metrics.String})
			}
			nk := g.Intn(4)
			ki := g.Intn(len(keyPool))
			for k := 0; k < nk; k++ {
				m.Keys = append(m.Keys, keyPool[(ki+k)%len(keyPool)])
			}
			if nk > 0 && g.Intn(12) == 0 {
				// a key called like the program label: with the prog label on the
				// label set has a duplicate label name and is unrepresentable
				m.Keys[g.Intn(nk)] = "prog"
			}
		}
		m.Kind, m.Type = m.kind.String(), m.typ.String()
		ns := g.Intn(6)
		if len(m.Keys) == 0 && ns > 1 {
			ns = 1
		}
		seen := map[string]bool{}
		// two label sets that only differ in where a separator-like character
		// sits (any joining of the values with that character makes them equal)
		var shifted [][]string
		if len(m.Keys) >= 2 && ns >= 2 && g.Intn(4) == 0 {
			sep := ev.PickOne(g, []string{",", " ", ";", "|", ":", "/", "-", "=", "\"", "\\", "\x00", "\n", "}{", "\t"})
			a := []string{"p", "q" + sep + "r"}
			b := []string{"p" + sep + "q", "r"}
			for len(a) < len(m.Keys) {
				a, b = append(a, "z"), append(b, "z")
			}
			shifted = [][]string{a, b}
		}
		for j := 0; j < ns; j++ {
			var ls lset
			for range m.Keys {
				v := ev.PickOne(g, goodLabelVals)
				if hostile && g.Intn(6) == 0 {
					v = ev.PickOne(g, []string{"\xff", "a\xffb", "\xc3", "ok\x80"})
				}
				ls.Labels = append(ls.Labels, v)
			}
			if j < len(shifted) {
				ls.Labels = shifted[j]
			}
			k := strings.Join(ls.Labels, "\x00")
			if seen[k] {
				continue
			}
			seen[k] = true
			ls.TS = 1600000000000 + int64(g.Intn(1000000))*1000 + int64(g.Intn(1000))
			switch m.typ {
			case metrics.Int:
				ls.I = ev.PickOne(g, intsPool)
			case metrics.Float:
				ls.f = ev.PickOne(g, floatsPool)
				ls.F = fmt.Sprint(ls.f)
			case metrics.String:
				ls.S = ev.PickOne(g, []string{"", "text", "1.5"})
			case metrics.Buckets:
				for o := 0; o < g.Intn(6); o++ {
					ls.Obs = append(ls.Obs, ev.PickOne(g, []float64{0, 0.5, 1, 1.5, 3, 4, 5, 1000, 1e7, -1, math.Inf(1)}))
				}
			}
			m.Sets = append(m.Sets, ls)
		}
		s.Metrics = append(s.Metrics, m)
		used[m.Name] = &s.Metrics[len(s.Metrics)-1]
	}
	return s
}

func build(s spec) (*metrics.Store, error) {
	st := metrics.NewStore()
	for _, ms := range s.Metrics {
		m := metrics.NewMetric(ms.Name, ms.Prog, ms.kind, ms.typ, ms.Keys...)
		m.Source = fmt.Sprintf("%s:1:1", ms.Prog)
		if ms.typ == metrics.Buckets {
			lo := 0.0
			for _, b := range ms.bounds {
				m.Buckets = append(m.Buckets, datum.Range{Min: lo, Max: b})
				lo = b
			}
			m.Buckets = append(m.Buckets, datum.Range{Min: lo, Max: math.Inf(1)})
		}
		for _, ls := range ms.Sets {
			d, err := m.GetDatum(ls.Labels...)
			if err != nil {
				return nil, err
			}
			ts := time.UnixMilli(ls.TS)
			switch ms.typ {
			case metrics.Int:
				datum.SetInt(d, ls.I, ts)
			case metrics.Float:
				datum.SetFloat(d, ls.f, ts)
			case metrics.String:
				datum.SetString(d, ls.S, ts)
			case metrics.Buckets:
				for _, o := range ls.Obs {
					datum.Observe(d, o, ts)
				}
				if len(ls.Obs) == 0 {
					d.(*datum.Buckets).Time = ts.UnixNano()
				}
			}
		}
		if err := st.Add(m); err != nil {
			return nil, err
		}
	}
	return st, nil
}

type sample struct {
	name   string
	labels string // canonical k=v list
	typ    dto.MetricType
	value  float64
	hist   bool
	count  uint64
	sum    float64
	cum    map[float64]uint64
	hasTS  bool
	ts     int64
	str    bool // value not checked
}

func canonLabels(keys, vals []string) string {
	var kv []string
	for i := range keys {
		kv = append(kv, keys[i]+"="+fmt.Sprintf("%q", vals[i]))
	}
	sort.Strings(kv)
	return strings.Join(kv, ",")
}

func expected(s spec) map[string]sample {
	out := map[string]sample{}
	for _, m := range s.Metrics {
		if m.kind == metrics.Text {
			continue
		}
		for _, ls := range m.Sets {
			ok := true
			for _, v := range ls.Labels {
				if !utf8.ValidString(v) {
					ok = false
				}
			}
			for _, k := range m.Keys {
				if k == "prog" && !s.OmitProg {
					ok = false
				}
			}
			if !ok {
				continue
			}
			keys := append([]string{}, m.Keys...)
			vals := append([]string{}, ls.Labels...)
			if !s.OmitProg {
				keys = append(keys, "prog")
				vals = append(vals, m.Prog)
			}
			sm := sample{name: strings.ReplaceAll(m.Name, "-", "_"), labels: canonLabels(keys, vals), hasTS: s.EmitTS, ts: ls.TS}
			switch m.kind {
			case metrics.Counter:
				sm.typ = dto.MetricType_COUNTER
			case metrics.Gauge, metrics.Timer:
				sm.typ = dto.MetricType_GAUGE
			case metrics.Histogram:
				sm.typ = dto.MetricType_HISTOGRAM
			}
			switch m.typ {
			case metrics.Int:
				sm.value = float64(ls.I)
			case metrics.Float:
				sm.value = ls.f
			case metrics.String:
				sm.str = true
			case metrics.Buckets:
				sm.hist = true
				sm.cum = map[float64]uint64{}
				bounds := append(append([]float64{}, m.bounds...), math.Inf(1))
				counts := make([]uint64, len(bounds))
				for _, o := range ls.Obs {
					sm.sum += o
					sm.count++
					for bi, b := range bounds {
						if o <= b {
							counts[bi]++
							break
						}
					}
				}
				c := uint64(0)
				for bi, b := range bounds {
					c += counts[bi]
					sm.cum[b] = c
				}
			}
			out[sm.name+"{"+sm.labels+"}"] = sm
		}
	}
	return out
}

// bump changes every numeric value of the store in place (same timestamps)
// and returns the spec describing the new contents.
func bump(st *metrics.Store, s spec) spec {
	s2 := s
	s2.Metrics = nil
	for _, ms := range s.Metrics {
		m2 := ms
		m2.Sets = nil
		m := st.FindMetricOrNil(ms.Name, ms.Prog)
		for _, ls := range ms.Sets {
			l2 := ls
			l2.Obs = append([]float64{}, ls.Obs...)
			if m != nil {
				if d, err := m.GetDatum(ls.Labels...); err == nil {
					ts := time.UnixMilli(ls.TS)
					switch ms.typ {
					case metrics.Int:
						if l2.I < math.MaxInt64-7 {
							l2.I += 7
						} else {
							l2.I -= 7
						}
						datum.SetInt(d, l2.I, ts)
					case metrics.Float:
						if !math.IsNaN(l2.f) && !math.IsInf(l2.f, 0) && math.Abs(l2.f) < 1e15 {
							l2.f += 0.5
							l2.F = fmt.Sprint(l2.f)
						}
						datum.SetFloat(d, l2.f, ts)
					case metrics.Buckets:
						l2.Obs = append(l2.Obs, 1.5)
						datum.Observe(d, 1.5, ts)
					}
				}
			}
			m2.Sets = append(m2.Sets, l2)
		}
		s2.Metrics = append(s2.Metrics, m2)
	}
	return s2
}

func feq(a, b float64) bool {
	return math.Float64bits(a) == math.Float64bits(b) || (math.IsNaN(a) && math.IsNaN(b)) || a == b
}

// check parses text and compares with want; returns "" if equal.
func check(text []byte, want map[string]sample) string {
	var tp expfmt.TextParser
	fams, err := tp.TextToMetricFamilies(bytes.NewReader(text))
	if err != nil {
		return "exposition does not parse: " + err.Error()
	}
	got := map[string]bool{}
	for name, f := range fams {
		for _, m := range f.Metric {
			var ks, vs []string
			for _, lp := range m.Label {
				ks = append(ks, lp.GetName())
				vs = append(vs, lp.GetValue())
			}
			id := name + "{" + canonLabels(ks, vs) + "}"
			if got[id] {
				return "series listed twice: " + id
			}
			got[id] = true
			w, ok := want[id]
			if !ok {
				return "unexpected series " + id
			}
			if f.GetType() != w.typ {
				return fmt.Sprintf("%s has type %v want %v", id, f.GetType(), w.typ)
			}
			if (m.TimestampMs != nil) != w.hasTS {
				return fmt.Sprintf("%s timestamp present=%v want %v", id, m.TimestampMs != nil, w.hasTS)
			}
			if w.hasTS && m.GetTimestampMs() != w.ts {
				return fmt.Sprintf("%s timestamp %d want %d", id, m.GetTimestampMs(), w.ts)
			}
			switch {
			case w.hist:
				h := m.GetHistogram()
				if h == nil {
					return id + " is not a histogram sample"
				}
				if h.GetSampleCount() != w.count || !feq(h.GetSampleSum(), w.sum) {
					return fmt.Sprintf("%s count/sum %d/%v want %d/%v", id, h.GetSampleCount(), h.GetSampleSum(), w.count, w.sum)
				}
				prev := uint64(0)
				seen := map[float64]bool{}
				for _, b := range h.Bucket {
					if b.GetCumulativeCount() < prev {
						return id + " bucket counts decrease"
					}
					prev = b.GetCumulativeCount()
					wc, ok := w.cum[b.GetUpperBound()]
					if !ok {
						return fmt.Sprintf("%s unexpected bucket le=%v", id, b.GetUpperBound())
					}
					if wc != b.GetCumulativeCount() {
						return fmt.Sprintf("%s bucket le=%v cumulative %d want %d", id, b.GetUpperBound(), b.GetCumulativeCount(), wc)
					}
					seen[b.GetUpperBound()] = true
				}
				for ub := range w.cum {
					if !seen[ub] {
						return fmt.Sprintf("%s bucket le=%v missing", id, ub)
					}
				}
			case w.str:
			default:
				var v float64
				switch w.typ {
				case dto.MetricType_COUNTER:
					v = m.GetCounter().GetValue()
				default:
					v = m.GetGauge().GetValue()
				}
				if !feq(v, w.value) {
					return fmt.Sprintf("%s value %v want %v", id, v, w.value)
				}
			}
		}
	}
	for id := range want {
		if !got[id] {
			return "missing series " + id
		}
	}
	return ""
}

type witness struct {
	Spec spec   `json:"store"`
	Path string `json:"scrape_path"`
	What string `json:"what"`
	Text string `json:"exposition,omitempty"`
}

func sameNameDifferentKeys(s spec) bool {
	byName := map[string][]string{}
	for _, m := range s.Metrics {
		if m.kind == metrics.Text {
			continue
		}
		n := strings.ReplaceAll(m.Name, "-", "_")
		k := strings.Join(m.Keys, ",")
		if o, ok := byName[n]; ok && o[0] != k {
			return true
		}
		byName[n] = []string{k}
	}
	return false
}

func TestC13(t *testing.T) {
	r := ev.Start(t, "C13", "exploration")
	defer r.Finish()
	r.Rule("random stores (0-6 metrics of every kind/type, 0-3 keys, 0-5 label sets, values incl. ±MaxInt64, ±Inf, NaN, subnormals; label values with quotes/backslashes/newlines/UTF-8 and, in 'hostile' cases, invalid UTF-8; same name in two programs) scraped both ways (registry registered on the empty store + promhttp handler; Exporter.Write) with prog label on/off and timestamps on/off; parsed with expfmt and compared series by series with the expectation computed from the store spec. Non-trivial: store has >=2 exported series; distinct by spec.")
	r.Assume("expfmt.TextParser is the trusted parser", "String-typed non-text metrics: presence and labels checked, value not (undefined as a float)", "names are drawn from a pool with no collisions after '-' -> '_'")
	n := ev.Pick(3000, 150000)
	rng := ev.NewRNG(ev.Seed(), "c13")
	ev.Parallel(n, runtime.GOMAXPROCS(0), func(i int) {
		g := rng.Sub(i)
		hostile := i%4 == 0
		s := genSpec(g, hostile)
		want := expected(s)
		opts := []exporter.Option{exporter.Hostname("h"), exporter.DisableExport()}
		if s.OmitProg {
			opts = append(opts, exporter.OmitProgLabel())
		}
		if s.EmitTS {
			opts = append(opts, exporter.EmitTimestamp())
		}
		for _, path := range []string{"handler", "write"} {
			var text []byte
			var what string
			st, err := build(s)
			if err != nil {
				r.Violation("store-build", witness{Spec: s, What: err.Error()})
				return
			}
			// scrape: once, and — with the same exporter — a second time after
			// every value was changed while its timestamp stayed the same
			var scrape func() ([]byte, string)
			var stop func()
			// the exporter's own context: cancelled at shutdown, while scrapes
			// may still arrive (grace period); what it exports must not change
			ectx, ecancel := context.WithCancel(context.Background())
			defer ecancel()
			switch path {
			case "handler":
				empty := metrics.NewStore()
				e, err := exporter.New(ectx, empty, opts...)
				if err != nil {
					t.Error(err)
					return
				}
				reg := prometheus.NewRegistry()
				regErr := ""
				if err := reg.Register(e); err != nil {
					regErr = "registering the collector failed: " + err.Error()
				}
				// populate after registration, as the server does
				_ = st.Range(func(m *metrics.Metric) error { return empty.Add(m) })
				scrape = func() ([]byte, string) {
					rec := httptest.NewRecorder()
					promhttp.HandlerFor(reg, promhttp.HandlerOpts{}).ServeHTTP(rec, httptest.NewRequest("GET", "/metrics", nil))
					if regErr != "" {
						return rec.Body.Bytes(), regErr
					}
					if rec.Code != 200 {
						return rec.Body.Bytes(), fmt.Sprintf("/metrics returned %d: %s", rec.Code, strings.TrimSpace(rec.Body.String()))
					}
					return rec.Body.Bytes(), ""
				}
				stop = e.Stop
			case "write":
				e, err := exporter.New(ectx, st, opts...)
				if err != nil {
					t.Error(err)
					return
				}
				scrape = func() ([]byte, string) {
					var buf bytes.Buffer
					if err := e.Write(&buf); err != nil {
						return buf.Bytes(), "Exporter.Write failed: " + err.Error()
					}
					return buf.Bytes(), ""
				}
				stop = e.Stop
			}
			text, what = scrape()
			if what == "" {
				what = check(text, want)
			}
			if what == "" {
				s2 := bump(st, s)
				if i%5 == 0 {
					ecancel()
					r.Count("second_scrapes_after_exporter_context_cancelled", 1)
				}
				text, what = scrape()
				if what == "" {
					what = check(text, expected(s2))
				}
				if what != "" {
					what = "second scrape (values changed, timestamps unchanged): " + what
				}
				r.Count("second_scrapes_"+path, 1)
				s = s2 // the store now holds s2; the next path rebuilds from it
				want = expected(s2)
			}
			stop()
			r.Eval(1)
			if what != "" {
				w := witness{Spec: s, Path: path, What: what, Text: string(text)}
				if path == "write" && sameNameDifferentKeys(s) && strings.Contains(what, "inconsistent label") {
					r.Known("C13-b", w)
					r.Count("known_C13b", 1)
					continue
				}
				r.Violation(strings.Join(strings.Fields(what)[:2], "-"), w)
				return
			}
			r.Count("scrapes_"+path, 1)
			r.Count("series_compared", len(want))
		}
		if len(want) >= 2 {
			r.Distinct(fmt.Sprintf("%+v", s))
			if i < 3 {
				r.Sample(s)
			}
		}
		if hostile {
			r.Count("hostile_stores", 1)
		}
	})
	if r.Violations() == 0 {
		concurrentPhase(t, r)
	}
}

// concurrentPhase: scrapes taken while label sets of the scraped metric are
// removed and created again (del / expiry / limits / new labels in a live
// server). Every label set always carries the same distinctive value;
// mutations and scrapes are stamped from one logical clock, and a label set
// no mutation of which overlaps a scrape was present and unchanged for the
// whole scrape, so the exposition must list it exactly once with its value —
// and, whatever it observed, the scrape must succeed and never list a series
// twice.
func concurrentPhase(t *testing.T, r *ev.Run) {
	st := metrics.NewStore()
	e, err := exporter.New(context.Background(), st, exporter.Hostname("h"), exporter.DisableExport())
	if err != nil {
		t.Fatal(err)
	}
	defer e.Stop()
	reg := prometheus.NewRegistry()
	if err := reg.Register(e); err != nil {
		t.Fatal(err)
	}
	m := metrics.NewMetric("cc", "p", metrics.Counter, metrics.Int, "k")
	const nSets = 32
	key := func(i int) string { return fmt.Sprintf("s%d", i) }
	for i := 0; i < nSets; i++ {
		d, _ := m.GetDatum(key(i))
		datum.SetInt(d, int64(7000+i), time.Unix(2000+int64(i), 0))
	}
	if err := st.Add(m); err != nil {
		t.Fatal(err)
	}
	type span struct{ s, e int64 }
	var clk atomic.Int64
	var logMu sync.Mutex
	ops := make([][]span, nSets)
	stop := make(chan struct{})
	var mut sync.WaitGroup
	var flips atomic.Int64
	for w := 0; w < 2; w++ {
		w := w
		mut.Add(1)
		go func() {
			defer mut.Done()
			for n := 0; ; n++ {
				select {
				case <-stop:
					return
				default:
				}
				i := (2*n + w) % nSets
				logMu.Lock()
				ops[i] = append(ops[i], span{clk.Add(1), math.MaxInt64})
				at := len(ops[i]) - 1
				logMu.Unlock()
				_ = m.RemoveDatum(key(i))
				if n%5 == 0 {
					runtime.Gosched()
				}
				d, _ := m.GetDatum(key(i))
				datum.SetInt(d, int64(7000+i), time.Unix(2000+int64(i), 0))
				logMu.Lock()
				ops[i][at].e = clk.Add(1)
				logMu.Unlock()
				flips.Add(1)
				runtime.Gosched()
			}
		}()
	}
	var judged, scrapes atomic.Int64
	n := ev.Pick(200, 4000)
	var wg sync.WaitGroup
	for _, path := range []string{"handler", "write"} {
		path := path
		wg.Add(1)
		go func() {
			defer wg.Done()
			for it := 0; it < n && r.Violations() == 0; it++ {
				var text []byte
				what := ""
				c0 := clk.Add(1)
				if path == "handler" {
					rec := httptest.NewRecorder()
					promhttp.HandlerFor(reg, promhttp.HandlerOpts{}).ServeHTTP(rec, httptest.NewRequest("GET", "/metrics", nil))
					text = rec.Body.Bytes()
					if rec.Code != 200 {
						what = fmt.Sprintf("/metrics returned %d: %s", rec.Code, strings.TrimSpace(string(text)))
					}
				} else {
					var buf bytes.Buffer
					if err := e.Write(&buf); err != nil {
						what = "Exporter.Write failed: " + err.Error()
					}
					text = buf.Bytes()
				}
				c1 := clk.Add(1)
				if what == "" {
					var tp expfmt.TextParser
					fams, err := tp.TextToMetricFamilies(bytes.NewReader(text))
					if err != nil {
						what = "exposition does not parse: " + err.Error()
					} else {
						seen := map[string][]float64{}
						if f := fams["cc"]; f != nil {
							for _, pm := range f.Metric {
								for _, lp := range pm.Label {
									if lp.GetName() == "k" {
										seen[lp.GetValue()] = append(seen[lp.GetValue()], pm.GetCounter().GetValue())
									}
								}
							}
						}
						logMu.Lock()
						for i := 0; i < nSets && what == ""; i++ {
							stable := true
							for _, o := range ops[i] {
								if o.s <= c1 && o.e >= c0 {
									stable = false
								}
							}
							vs := seen[key(i)]
							switch {
							case len(vs) > 1:
								what = fmt.Sprintf("series cc{k=%q} is listed %d times", key(i), len(vs))
							case stable && (len(vs) != 1 || vs[0] != float64(7000+i)):
								what = fmt.Sprintf("label set k=%s (present and unmodified for the whole scrape, value %d) is exported as %v", key(i), 7000+i, vs)
							}
							if stable {
								judged.Add(1)
							}
						}
						logMu.Unlock()
					}
				}
				if what != "" {
					r.Violation("concurrent-"+strings.Join(strings.Fields(what)[:2], "-"), map[string]any{"path": path, "what": what + "; the scrape ran while other label sets of the metric were being removed and re-created", "text": string(text)})
					return
				}
				scrapes.Add(1)
			}
		}()
	}
	wg.Wait()
	close(stop)
	mut.Wait()
	r.Eval(1)
	r.Count("concurrent_scrapes_judged", int(scrapes.Load()))
	r.Count("concurrent_stable_label_sets_judged", int(judged.Load()))
	r.Count("concurrent_label_set_removals_and_creations", int(flips.Load()))
	r.Floor("concurrent_stable_label_sets_judged", 1000)
}
