// C10 — garbage collection removes exactly the expired and over-limit data.
// Monitor: reference GC predicate evaluated on (before, after) snapshots of a
// real Store around one real Gc() call.
package c10

import (
	"fmt"
	"runtime"
	"sort"
	"testing"
	"time"

	"github.com/google/mtail/internal/metrics"
	"github.com/google/mtail/internal/metrics/datum"
	"github.com/google/mtail/verif/ev"
)

type lvSnap struct {
	ptr    *metrics.LabelValue
	Labels []string      `json:"labels"`
	Val    int64         `json:"value"`
	AgeH   float64       `json:"age_hours"` // relative to the harness's t0
	ts     int64         // unix nanos
	Expiry time.Duration `json:"expiry"`
}

type mSnap struct {
	m     *metrics.Metric
	Name  string   `json:"name"`
	Limit int      `json:"limit"`
	LVs   []lvSnap `json:"label_values"`
}

func snapshot(s *metrics.Store, order []*metrics.Metric, t0 time.Time) []mSnap {
	var out []mSnap
	for _, m := range order {
		ms := mSnap{m: m, Name: m.Name, Limit: m.Limit}
		m.RLock()
		for _, lv := range m.LabelValues {
			ts := lv.Value.TimeUTC().UnixNano()
			var iv int64
			if m.Type == metrics.Int {
				iv = datum.GetInt(lv.Value)
			}
			ms.LVs = append(ms.LVs, lvSnap{lv, append([]string{}, lv.Labels...), iv, t0.Sub(time.Unix(0, ts)).Hours(), ts, lv.Expiry})
		}
		m.RUnlock()
		out = append(out, ms)
	}
	return out
}

// judge decides whether `after` is an allowed outcome of one GC pass over
// `before` that sampled the clock somewhere in [t0,t1]. Data were generated so
// that "expired" does not depend on where in the bracket the clock was read.
func judge(before, after mSnap, t0, t1 time.Time) string {
	// survivors must be a subsequence of before, unchanged
	kept := map[*metrics.LabelValue]bool{}
	j := 0
	for _, a := range after.LVs {
		for j < len(before.LVs) && before.LVs[j].ptr != a.ptr {
			j++
		}
		if j == len(before.LVs) {
			return fmt.Sprintf("label value %q after GC is new or out of order", a.Labels)
		}
		b := before.LVs[j]
		if b.Val != a.Val || b.ts != a.ts || b.Expiry != a.Expiry || fmt.Sprint(b.Labels) != fmt.Sprint(a.Labels) {
			return fmt.Sprintf("surviving label value %q changed: %+v -> %+v", a.Labels, b, a)
		}
		kept[a.ptr] = true
		j++
	}
	expired := func(l lvSnap) bool {
		if l.Expiry <= 0 {
			return false
		}
		e0 := t0.Sub(time.Unix(0, l.ts)) > l.Expiry
		e1 := t1.Sub(time.Unix(0, l.ts)) > l.Expiry
		if e0 != e1 {
			panic("generator produced a datum whose expiry depends on the clock sample")
		}
		return e0
	}
	N := before.Limit
	limitApplies := N > 0 && len(before.LVs) > N
	if limitApplies && len(after.LVs) > N {
		return fmt.Sprintf("limit %d but %d data remain (had %d)", N, len(after.LVs), len(before.LVs))
	}
	strict := func() string {
		for _, b := range before.LVs {
			if kept[b.ptr] && expired(b) {
				return fmt.Sprintf("expired datum %q (age %.1fh, expiry %v) survived", b.Labels, b.AgeH, b.Expiry)
			}
			if !kept[b.ptr] && !expired(b) {
				return fmt.Sprintf("datum %q (age %.1fh, expiry %v) removed although neither expired nor over the limit", b.Labels, b.AgeH, b.Expiry)
			}
		}
		return ""
	}
	if !limitApplies {
		return strict()
	}
	// limit phase: exists a timestamp threshold tau such that the limit victims
	// are all data older than tau plus some data at tau.
	taus := []int64{}
	for _, b := range before.LVs {
		taus = append(taus, b.ts)
	}
	sort.Slice(taus, func(i, j int) bool { return taus[i] < taus[j] })
	why := ""
	for _, tau := range taus {
		ok := true
		remaining := len(before.LVs)
		for _, b := range before.LVs {
			switch {
			case b.ts < tau:
				if kept[b.ptr] {
					ok = false
					why = fmt.Sprintf("datum %q is older than a limit victim but was kept", b.Labels)
				}
				remaining--
			case b.ts == tau:
				if kept[b.ptr] {
					if expired(b) {
						ok = false
						why = fmt.Sprintf("expired datum %q survived", b.Labels)
					}
				} else {
					remaining-- // may be a limit victim
				}
			default:
				if kept[b.ptr] == expired(b) {
					ok = false
					if kept[b.ptr] {
						why = fmt.Sprintf("expired datum %q (age %.1fh, expiry %v) survived", b.Labels, b.AgeH, b.Expiry)
					} else {
						why = fmt.Sprintf("datum %q (age %.1fh) removed although newer data were kept/evicted for the limit and it is not expired", b.Labels, b.AgeH)
					}
				}
			}
			if !ok {
				break
			}
		}
		if ok && remaining <= N {
			return ""
		}
		if ok {
			why = "no prefix of the oldest data accounts for the removals within the limit"
		}
	}
	return "limit phase: " + why
}

type step struct {
	Op     string `json:"op"`
	Metric int    `json:"metric"`
	Label  string `json:"label"`
	AgeIdx int    `json:"age_idx,omitempty"`
	Expiry string `json:"expiry,omitempty"`
}

// ages in hours; the last two are beyond what a time.Duration can hold
// (≈ 292 years): 300 and 335 years, still representable as a datum timestamp
var agesH = []float64{100, 50, 10, 2.5, -5, 30, 80, 300 * 8766, 335 * 8766}

// ago returns the instant age hours before t0.
func ago(t0 time.Time, ageH float64) time.Time {
	if ageH > 2e6 {
		return t0.AddDate(-int(ageH/8766), 0, 0)
	}
	return t0.Add(-time.Duration(ageH * float64(time.Hour)))
}

var expiries = []time.Duration{time.Hour, 24 * time.Hour, 72 * time.Hour}

type witness struct {
	Steps  []step  `json:"build_steps"`
	Limits []int   `json:"limits"`
	Before []mSnap `json:"before"`
	After  []mSnap `json:"after"`
	What   string  `json:"what"`
	Pass   int     `json:"gc_pass"`
}

func TestC10(t *testing.T) {
	r := ev.Start(t, "C10", "exploration")
	defer r.Finish()
	r.Rule("random stores (1-4 metrics, 0-12 data each, timestamps from a pool of 9 instants (two of them 300 and 335 years back, beyond the range of a time.Duration) so ties are frequent, expiry marks from {1h,24h,72h}, limits 0-6) built through the real API, then one real Store.Gc(); the (before, after) pair is judged by the reference predicate; a second pass must change nothing. Non-trivial: at least one datum was removed and at least one survived in the same metric; distinct by the before-snapshot text.")
	r.Assume("Gc reads time.Now() itself: every datum's age differs from each expiry by >= 0.5h so the verdict does not depend on where in the harness's [t0,t1] bracket the clock was sampled", "limit ties (equal timestamps) are judged by the stated inequality, not an exact victim set", "'at most N' is read literally: removing more of the oldest data than needed is not reported")
	n := ev.Pick(6000, 300000)
	rng := ev.NewRNG(ev.Seed(), "c10")
	ev.Parallel(n, runtime.GOMAXPROCS(0), func(idx int) {
		g := rng.Sub(idx)
		t0 := time.Now()
		s := metrics.NewStore()
		nm := g.Range(1, 4)
		var ms []*metrics.Metric
		var limits []int
		for i := 0; i < nm; i++ {
			m := metrics.NewMetric(fmt.Sprintf("m%d", i), "prog", metrics.Gauge, metrics.Int, "k")
			if i == 1 {
				// a text metric whose data are re-set to the SAME text at new
				// instants: the last update decides, not the last change
				m = metrics.NewMetric(fmt.Sprintf("m%d", i), "prog", metrics.Text, metrics.String, "k")
			}
			if g.Intn(3) > 0 {
				m.Limit = g.Range(1, 6)
			}
			if g.Intn(4) == 0 {
				m.Hidden = true
			}
			limits = append(limits, m.Limit)
			if err := s.Add(m); err != nil {
				t.Fatal(err)
			}
			ms = append(ms, m)
		}
		var steps []step
		// GC decides on the instant of a datum's last UPDATE: what the datum
		// reports as its time must be the instant of the last set, also when
		// the set did not change the value
		lastSet := map[string]time.Time{}
		stampsOK := func() string {
			for key, want := range lastSet {
				var mi int
				var lab string
				fmt.Sscanf(key, "%d/%s", &mi, &lab)
				m := ms[mi]
				m.RLock()
				lv := m.FindLabelValueOrNil([]string{lab})
				var got time.Time
				if lv != nil {
					got = lv.Value.TimeUTC()
				}
				m.RUnlock()
				if lv != nil && !got.Equal(want) {
					return fmt.Sprintf("datum m%d[%s] was last set at %v but reports %v as its time (GC would judge it by that)", mi, lab, want.UTC(), got)
				}
			}
			return ""
		}
		mutateStore := func(nsteps int) {
			for i := 0; i < nsteps; i++ {
				mi := g.Intn(nm)
				m := ms[mi]
				lab := fmt.Sprintf("l%d", g.Intn(13))
				st := step{Metric: mi, Label: lab}
				switch k := g.Intn(10); {
				case k < 6:
					st.Op = "set"
					st.AgeIdx = g.Intn(len(agesH))
					d, _ := m.GetDatum(lab)
					if m.Type == metrics.String {
						datum.SetString(d, "same text", ago(t0, agesH[st.AgeIdx]))
					} else {
						datum.SetInt(d, int64(i+1), ago(t0, agesH[st.AgeIdx]))
					}
					lastSet[fmt.Sprintf("%d/%s", mi, lab)] = ago(t0, agesH[st.AgeIdx])
				case k < 9:
					st.Op = "expire"
					e := ev.PickOne(g, expiries)
					st.Expiry = e.String()
					_ = m.ExpireDatum(e, lab)
				default:
					st.Op = "remove"
					_ = m.RemoveDatum(lab)
					delete(lastSet, fmt.Sprintf("%d/%s", mi, lab))
				}
				steps = append(steps, st)
			}
		}
		mutateStore(g.Range(0, 12*nm))
		if w := stampsOK(); w != "" {
			r.Violation("datum-time-is-not-last-update", witness{steps, limits, nil, nil, w, 0})
			return
		}
		before := snapshot(s, ms, t0)
		cur := before
		// pass 1: GC of the built store; pass 2: GC again (must be a no-op);
		// then more updates (incl. re-stamping with OLDER instants and new expiry
		// marks) and pass 3; pass 4 again a no-op
		for pass := 1; pass <= 4; pass++ {
			if pass == 3 {
				steps = append(steps, step{Op: "--- gc x2 ---"})
				mutateStore(g.Range(1, 6*nm))
				cur = snapshot(s, ms, t0)
			}
			t0p := time.Now()
			if err := s.Gc(); err != nil {
				r.Violation("gc-error", witness{steps, limits, cur, nil, err.Error(), pass})
				return
			}
			t1p := time.Now()
			after := snapshot(s, ms, t0)
			for i := range cur {
				w := judge(cur[i], after[i], t0p, t1p)
				if w == "" && pass%2 == 0 && len(cur[i].LVs) != len(after[i].LVs) {
					w = "second GC pass removed more data"
				}
				if w == "" {
					// index must agree with the slice
					m := ms[i]
					keptSet := map[string]bool{}
					for _, l := range after[i].LVs {
						keptSet[l.Labels[0]] = true
						if lv := m.FindLabelValueOrNil(l.Labels); lv != l.ptr {
							w = fmt.Sprintf("index lost surviving datum %q", l.Labels)
						}
					}
					for _, l := range cur[i].LVs {
						if !keptSet[l.Labels[0]] && m.FindLabelValueOrNil(l.Labels) != nil {
							w = fmt.Sprintf("index still holds removed datum %q", l.Labels)
						}
					}
				}
				if w != "" {
					r.Violation(cls(w), witness{steps, limits, []mSnap{cur[i]}, []mSnap{after[i]}, w, pass})
				}
				if pass%2 == 1 {
					r.Count("metrics_judged", 1)
					r.Eval(1)
					rem := len(cur[i].LVs) - len(after[i].LVs)
					r.Count("data_removed", rem)
					r.Count("data_kept", len(after[i].LVs))
					if rem > 0 && len(after[i].LVs) > 0 {
						r.Distinct(fmt.Sprintf("%+v", cur[i]))
						if cur[i].Limit > 0 && len(cur[i].LVs) > cur[i].Limit {
							r.Count("metrics_over_limit", 1)
						}
						if idx < 3 {
							r.Sample(map[string]any{"before": cur[i], "after": after[i]})
						}
					}
				}
			}
			cur = after
		}
		r.Count("stores", 1)
	})

	// near the threshold: idle times a fraction of a second short of / past the
	// expiry, incl. expiries that are not a whole number of seconds. Gc reads
	// the clock itself, so a datum is only judged when "expired" comes out the
	// same at the instants just before and just after the pass.
	nrng := ev.NewRNG(ev.Seed(), "c10-near")
	for c := 0; c < ev.Pick(400, 20000); c++ {
		g := nrng.Sub(c)
		st := metrics.NewStore()
		m := metrics.NewMetric("near", "prog", metrics.Gauge, metrics.Int, "k")
		_ = st.Add(m)
		type ent struct {
			lab    string
			ts     time.Time
			expiry time.Duration
		}
		var ents []ent
		for k := 0; k < g.Range(1, 6); k++ {
			e := ev.PickOne(g, []time.Duration{time.Second, 2 * time.Second, 1700 * time.Millisecond, 2500 * time.Millisecond, time.Hour, 90 * time.Minute})
			off := time.Duration(g.Range(150, 900)) * time.Millisecond
			if g.Bool() {
				off = -off
			}
			lab := fmt.Sprintf("n%d", k)
			ts := time.Now().Add(-e - off)
			d, _ := m.GetDatum(lab)
			datum.SetInt(d, int64(k), ts)
			_ = m.ExpireDatum(e, lab)
			ents = append(ents, ent{lab, ts, e})
		}
		t0 := time.Now()
		_ = st.Gc()
		t1 := time.Now()
		r.Eval(1)
		for _, e := range ents {
			e0, e1 := t0.Sub(e.ts) > e.expiry, t1.Sub(e.ts) > e.expiry
			if e0 != e1 {
				r.Count("near_threshold_data_not_judged", 1)
				continue
			}
			m.RLock()
			present := m.FindLabelValueOrNil([]string{e.lab}) != nil
			m.RUnlock()
			r.Count("near_threshold_data_judged", 1)
			if present == e0 {
				what := "removed although its idle time was still below its expiry"
				if present {
					what = "survived although its idle time exceeded its expiry"
				}
				r.Violation("near-threshold", map[string]any{"expiry": e.expiry.String(), "idle_before_pass": t0.Sub(e.ts).String(), "idle_after_pass": t1.Sub(e.ts).String(), "what": "datum " + what})
				return
			}
		}
	}
}
func cls(w string) string {
	switch {
	case len(w) > 5 && w[:5] == "limit":
		if len(w) > 12 && w[6] == 'p' {
			return "limit-phase"
		}
		return "limit-exceeded"
	case contains(w, "expired datum"):
		return "expired-survived"
	case contains(w, "removed although"):
		return "live-removed"
	case contains(w, "index"):
		return "index-mismatch"
	}
	return "other"
}
func contains(s, sub string) bool {
	for i := 0; i+len(sub) <= len(s); i++ {
		if s[i:i+len(sub)] == sub {
			return true
		}
	}
	return false
}
