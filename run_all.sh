#!/bin/bash
# run_all.sh [tier] [seed...] — runs every claimed check; prints one line per check.
cd "$(dirname "$0")"
TIER="${1:-quick}"; shift
SEEDS="${*:-1}"
fail=0
for s in $SEEDS; do
  for id in $(python3 -c "import json; print(' '.join(c['property_id'] for c in json.load(open('MANIFEST.json'))['checks']))"); do
    out=$(VERIF_SEED=$s ./check $id $TIER 2>&1); rc=$?
    echo "seed=$s $id rc=$rc $(echo "$out" | grep -E '^SUMMARY' | sed 's/SUMMARY //' | cut -c1-120) $(echo "$out" | grep -c '^KNOWN-FINDING') known"
    [ $rc -ne 0 ] && { fail=1; echo "$out" | grep -E '^(VIOLATION|INCONCLUSIVE|BUILD)' | head -5; }
  done
done
exit $fail
