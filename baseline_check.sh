#!/bin/bash
# Runs the repository suite with the verif guard OFF and checks that every test
# in BASELINE.json's stable_pass list passes.
export GOFLAGS=-mod=mod GOPROXY=off GOSUMDB=off GOTOOLCHAIN=local
OUT=$(mktemp /tmp/verif-baseline-XXXXXX.json)
REPO="${1:-/repo}"
(cd "$REPO" && go test -json -vet=off -count=1 -timeout 25m ./... > "$OUT" 2>/dev/null)
python3 - "$OUT" "$REPO" <<'PY'
import json,sys
passed=set()
for l in open(sys.argv[1]):
    try: e=json.loads(l)
    except: continue
    if e.get('Action')=='pass' and e.get('Test'):
        passed.add(e['Package']+'::'+e['Test'])
base=json.load(open('/root/.vp/BASELINE.json'))['stable_pass']
missing=[t for t in base if t not in passed]
# timing-sensitive tests flake on a loaded machine: a test that did not pass is
# re-run on its own (up to 3 times) before it counts as missing
import subprocess, os, re
retried=[]
repo=sys.argv[2]
for t in list(missing)[:12]:
    pkg,name=t.split('::',1)
    rel='./'+pkg.split('github.com/google/mtail/',1)[1]
    top=name.split('/')[0]
    for attempt in range(3):
        r=subprocess.run(['go','test','-json','-vet=off','-count=1','-run','^'+re.escape(top)+'$',rel],cwd=repo,capture_output=True,text=True)
        ok=False
        for l in r.stdout.splitlines():
            try: e=json.loads(l)
            except: continue
            if e.get('Action')=='pass' and e.get('Test')==name: ok=True
        if ok:
            missing.remove(t); retried.append(t); break
print('baseline stable_pass:',len(base),'passed now:',len(base)-len(missing),'missing:',len(missing), ('(passed on an isolated re-run: '+', '.join(x.split('::')[1] for x in retried)+')') if retried else '')
for m in missing[:40]: print('  MISSING',m)
sys.exit(1 if missing else 0)
PY
rc=$?
rm -f "$OUT"
exit $rc
