#!/bin/bash
# Runs the repository suite with the verif guard OFF and checks that every test
# in BASELINE.json's stable_pass list passes.
export GOFLAGS=-mod=mod GOPROXY=off GOSUMDB=off GOTOOLCHAIN=local
OUT=$(mktemp /tmp/verif-baseline-XXXXXX.json)
REPO="${1:-/repo}"
(cd "$REPO" && go test -json -vet=off -count=1 -timeout 25m ./... > "$OUT" 2>/dev/null)
python3 - "$OUT" <<'PY'
import json,sys
passed=set()
for l in open(sys.argv[1]):
    try: e=json.loads(l)
    except: continue
    if e.get('Action')=='pass' and e.get('Test'):
        passed.add(e['Package']+'::'+e['Test'])
base=json.load(open('/root/.vp/BASELINE.json'))['stable_pass']
missing=[t for t in base if t not in passed]
print('baseline stable_pass:',len(base),'passed now:',len(passed),'missing:',len(missing))
for m in missing[:40]: print('  MISSING',m)
sys.exit(1 if missing else 0)
PY
rc=$?
rm -f "$OUT"
exit $rc
